//go:build verif

package tcell

import (
	runewidth "github.com/mattn/go-runewidth"
)

// C08 — CellBuffer stores what was set; its dirty flag never misses a change.
//
// H08_hist drives the real CellBuffer through a bounded history of symbolic
// operations next to an executable specification (h08Spec) written from the
// property statement, and compares every observable after every operation.

type h08Cell struct {
	main  rune
	comb  []rune
	style Style
	lock  bool
	// dirty specification
	forced    bool // Invalidate / Resize / unlock / SetDirty(true) / covered by a changed wide rune
	hasClean  bool // a clean snapshot exists
	cMain     rune
	cComb     []rune
	cStyle    Style
	justClean bool // SetDirty(false) was the last operation that touched this cell
	fillWidth bool // last stored by Fill (width forced to 1 by the implementation; see findings)
	em        rune // displayed rune and width of main, computed once when stored
	ew        int
	rw        int // raw RuneWidth(main)
}

type h08Spec struct {
	w, h  int
	cells []h08Cell
}

func (s *h08Spec) in(x, y int) bool { return x >= 0 && y >= 0 && x < s.w && y < s.h }

// what a reader of the cell sees: blank for zero-width and control runes
func h08Disp(r rune) (rune, int, int) {
	w := runewidth.RuneWidth(r)
	if w == 0 || r < ' ' {
		return ' ', 1, w
	}
	return r, w, w
}

func h08RunesEq(a, b []rune) bool {
	if len(a) != len(b) {
		return false
	}
	eq := true
	for i := range a {
		eq = vsymAnd(eq, a[i] == b[i])
	}
	return eq
}

func (s *h08Spec) SetContent(x, y int, r rune, comb []rune, st Style) {
	if !s.in(x, y) {
		return
	}
	c := &s.cells[y*s.w+x]
	oldW := c.ew
	changed := vsymOr(c.main != r, !h08RunesEq(c.comb, comb))
	if changed && oldW > 1 {
		for i := 0; i < oldW; i++ {
			if s.in(x+i, y) {
				s.cells[y*s.w+x+i].forced = true
				s.cells[y*s.w+x+i].justClean = false
			}
		}
	}
	c.comb = append([]rune{}, comb...)
	if c.main != r {
		c.em, c.ew, c.rw = h08Disp(r)
	}
	c.main = r
	if st.fg == ColorNone {
		st.fg = c.style.fg
	}
	if st.bg == ColorNone {
		st.bg = c.style.bg
	}
	c.style = st
	c.justClean = false
	c.fillWidth = false
}

func (s *h08Spec) Fill(r rune, st Style) {
	em, ew, rw := h08Disp(r)
	for i := range s.cells {
		c := &s.cells[i]
		c.main = r
		c.em, c.ew, c.rw = em, ew, rw
		c.comb = nil
		cs := st
		if cs.fg == ColorNone {
			cs.fg = c.style.fg
		}
		if cs.bg == ColorNone {
			cs.bg = c.style.bg
		}
		c.style = cs
		c.justClean = false
		c.fillWidth = true
	}
}

func (s *h08Spec) Resize(w, h int) {
	if w == s.w && h == s.h {
		return
	}
	nc := make([]h08Cell, w*h)
	for y := 0; y < h; y++ {
		for x := 0; x < w; x++ {
			n := &nc[y*w+x]
			if x < s.w && y < s.h {
				o := &s.cells[y*s.w+x]
				n.main, n.comb, n.style, n.fillWidth = o.main, o.comb, o.style, o.fillWidth
				n.em, n.ew, n.rw = o.em, o.ew, o.rw
			} else {
				n.em, n.ew = ' ', 1
			}
			n.forced = true
		}
	}
	s.cells, s.w, s.h = nc, w, h
}

func (s *h08Spec) Invalidate() {
	for i := range s.cells {
		s.cells[i].forced = true
		s.cells[i].justClean = false
	}
}

func (s *h08Spec) SetDirty(x, y int, d bool) {
	if !s.in(x, y) {
		return
	}
	c := &s.cells[y*s.w+x]
	if d {
		c.forced = true
		c.justClean = false
		return
	}
	c.forced = false
	c.hasClean = true
	c.cMain = c.em
	c.cComb = c.comb
	c.cStyle = c.style
	c.justClean = true
}

func (s *h08Spec) Lock(x, y int) {
	if s.in(x, y) {
		s.cells[y*s.w+x].lock = true
	}
}

func (s *h08Spec) Unlock(x, y int) {
	if s.in(x, y) {
		c := &s.cells[y*s.w+x]
		c.lock = false
		c.forced = true
		c.justClean = false
	}
}

func h08Style(name string) Style {
	var st Style
	st.fg = Color(vsymUint64(name + ".fg"))
	st.bg = Color(vsymUint64(name + ".bg"))
	st.attrs = AttrMask(vsymUint32(name + ".attrs"))
	st.ulStyle = UnderlineStyle(vsymInt(name + ".ul"))
	st.ulColor = Color(vsymUint64(name + ".ulc"))
	st.url = vsymString(name+".url", vsymChoice(name+".urllen", vsymParam("urlvar", 2)))
	return st
}

// h08Rune: a symbolic rune inside a class whose display width the real
// go-runewidth decides (executed symbolically); class 5 is any int32.
func h08Rune(name string, classes int) rune {
	r := vsymRune(name)
	switch vsymChoice(name+".class", classes) {
	case 0:
		vsymAssume(r >= 0x21 && r <= 0x7e)
	case 1:
		vsymAssume(r >= 0x4e00 && r <= 0x9fff)
	case 2:
		vsymAssume(r >= 0 && r < 0x20)
	case 3:
		vsymAssume(r >= 0x300 && r <= 0x36f)
	case 4:
		vsymAssume(r == 0)
	}
	return r
}

func h08Comb(name string) []rune {
	n := vsymChoice(name+".n", vsymParam("combmax", 2)+1)
	if n == 0 {
		if vsymChoice(name+".nilness", vsymParam("nilvar", 2)) == 0 {
			return nil
		}
		return []rune{}
	}
	c := make([]rune, n)
	for i := range c {
		c[i] = vsymRune(name)
	}
	return c
}

// h08Compare checks every observable of the real buffer against the specification.
func h08Compare(cb *CellBuffer, sp *h08Spec, fillJudged bool) {
	w, h := cb.Size()
	vsymAssert(w == sp.w && h == sp.h, "Size() reports the dimensions last set by Resize")
	for y := -1; y <= sp.h; y++ {
		for x := -1; x <= sp.w; x++ {
			mainc, combc, style, width := cb.GetContent(x, y)
			dirty := cb.Dirty(x, y)
			if !sp.in(x, y) {
				vsymAssert(mainc == 0, "out-of-range read returns the zero rune")
				vsymAssert(len(combc) == 0, "out-of-range read returns no combining runes")
				vsymAssert(style == StyleDefault, "out-of-range read returns the default style")
				vsymAssert(!dirty, "out-of-range cell is never dirty")
				continue
			}
			c := &sp.cells[y*sp.w+x]
			em, ew := c.em, c.ew
			vsymAssert(mainc == em, "GetContent returns the rune last stored (blank for zero-width/control runes)")
			vsymAssert(width == ew, "GetContent reports the rune's display width (1 for the blank)")
			vsymAssert(h08RunesEq(combc, c.comb), "GetContent returns the combining runes stored at set time")
			vsymAssert(style == c.style, "GetContent returns the style last stored (ColorNone keeps the previous colour)")
			if c.lock {
				vsymAssert(!dirty, "a locked cell is never reported dirty")
				continue
			}
			if c.forced {
				vsymAssert(dirty, "cell is dirty after Invalidate/Resize/unlock/SetDirty(true)/wide-rune change")
			}
			if c.hasClean {
				differs := vsymOr(em != c.cMain, vsymOr(!h08RunesEq(c.comb, c.cComb), c.style != c.cStyle))
				vsymAssert(vsymImplies(differs, dirty), "cell whose rune, combining runes or style differ from the clean snapshot is dirty")
			} else {
				vsymAssert(dirty, "a cell that was never marked clean is dirty")
			}
			if c.justClean {
				vsymAssert(!dirty, "cell is clean right after SetDirty(x,y,false)")
			}
		}
	}
}

func h08Op(cb *CellBuffer, sp *h08Spec, tag string, classes int) {
	switch vsymChoice(tag+".op", 8) {
	case 0:
		x, y := vsymInt(tag+".x"), vsymInt(tag+".y")
		var r rune
		var comb []rune
		if vsymChoice(tag+".inrange", 2) == 0 {
			// in range: vary everything
			vsymAssume(sp.in(x, y))
			r = h08Rune(tag+".r", classes)
			comb = h08Comb(tag + ".comb")
		} else {
			// out of range (any of the four ways): content is irrelevant, keep it simple
			vsymAssume(!sp.in(x, y))
			r = vsymRune(tag + ".r")
			vsymAssume(r >= 0x21 && r <= 0x7e)
			comb = []rune{vsymRune(tag + ".comb")}
		}
		st := h08Style(tag + ".st")
		cb.SetContent(x, y, r, comb, st)
		sp.SetContent(x, y, r, comb, st)
		// the caller mutates its slice afterwards: the buffer must have copied it
		if len(comb) > 0 {
			comb[0] ^= 1
		}
	case 1:
		r := h08Rune(tag+".r", classes)
		st := h08Style(tag + ".st")
		cb.Fill(r, st)
		sp.Fill(r, st)
	case 2:
		w, h := vsymChoice(tag+".w", 4), vsymChoice(tag+".h", 3)
		cb.Resize(w, h)
		sp.Resize(w, h)
	case 3:
		cb.Invalidate()
		sp.Invalidate()
	case 4:
		x, y := vsymInt(tag+".x"), vsymInt(tag+".y")
		cb.SetDirty(x, y, true)
		sp.SetDirty(x, y, true)
	case 5:
		x, y := vsymInt(tag+".x"), vsymInt(tag+".y")
		cb.SetDirty(x, y, false)
		sp.SetDirty(x, y, false)
	case 6:
		x, y := vsymInt(tag+".x"), vsymInt(tag+".y")
		cb.LockCell(x, y)
		sp.Lock(x, y)
	case 7:
		x, y := vsymInt(tag+".x"), vsymInt(tag+".y")
		cb.UnlockCell(x, y)
		sp.Unlock(x, y)
	}
}

// H08_hist: all histories of k operations on a small buffer from the zero value.
func H08_hist() {
	k := vsymParam("k", 2)
	classes := vsymParam("classes", 5)
	var cb CellBuffer
	sp := &h08Spec{}
	var w, h int
	switch vsymChoice("dim", vsymParam("dims", 2)) {
	case 0:
		w, h = 2, 1
	case 1:
		w, h = 2, 2
	}
	cb.Resize(w, h)
	sp.Resize(w, h)
	h08Compare(&cb, sp, true)
	for i := 0; i < k; i++ {
		h08Op(&cb, sp, "op"+string(rune('0'+i)), classes)
		h08Compare(&cb, sp, true)
	}
}

// H08_clean_change: SetContent; SetDirty(false); then any operation — the
// three-step histories in which a stale or aliased clean snapshot would hide a change.
func H08_clean_change() {
	classes := vsymParam("classes", 4)
	var cb CellBuffer
	sp := &h08Spec{}
	cb.Resize(2, 1)
	sp.Resize(2, 1)
	x := vsymChoice("x", 2)
	r := h08Rune("r0", classes)
	var comb []rune
	n := vsymChoice("comb0.n", 3)
	for i := 0; i < n; i++ {
		comb = append(comb, vsymRune("comb0"))
	}
	st := h08Style("st0")
	cb.SetContent(x, 0, r, comb, st)
	sp.SetContent(x, 0, r, comb, st)
	cb.SetDirty(x, 0, false)
	sp.SetDirty(x, 0, false)
	h08Compare(&cb, sp, true)
	// second write: same cell, symbolic content of a chosen combining length
	r2 := r
	if vsymChoice("samerune", 2) == 1 {
		r2 = h08Rune("r1", classes)
	}
	var comb2 []rune
	n2 := vsymChoice("comb1.n", 3)
	for i := 0; i < n2; i++ {
		comb2 = append(comb2, vsymRune("comb1"))
	}
	st2 := st
	if vsymChoice("samestyle", 2) == 1 {
		st2 = h08Style("st1")
	}
	cb.SetContent(x, 0, r2, comb2, st2)
	sp.SetContent(x, 0, r2, comb2, st2)
	if len(comb2) > 0 {
		comb2[0] ^= 1
	}
	h08Compare(&cb, sp, true)
}
