//go:build verif && !js

package tcell

import (
	"unicode/utf8"
)

// refvt — a reference ECMA-48 terminal: strict tokenizer + grid model.
// Everything a terminfo screen writes is fed here block by block (one block
// per Tty.Write); ill-formed input is recorded in bad (C09), every cell
// carries the index of the block that last wrote it (C13).

type rvColor struct {
	kind int // 0 default, 1 palette, 2 rgb
	v    int // palette index or 0xRRGGBB
}

type rvPen struct {
	fg, bg, ul                                rvColor
	bold, dim, italic, blink, reverse, strike bool
	under                                     int // 0 none, 1 single, 2 double, 3 curly, 4 dotted, 5 dashed
	url, urlid                                string
}

type rvCell struct {
	r     rune
	comb  []rune
	pen   rvPen
	stamp int  // block that last wrote the cell (0 = never)
	cont  bool // second column of a wide character
}

type refVT struct {
	w, h    int
	cells   []rvCell
	cx, cy  int
	pend    bool // DEC pending-wrap: last column written, wrap deferred
	pen     rvPen
	blk     int // current block number (1-based)
	bad     []string
	utf8    bool
	width   func(rune) int
	acs     bool          // alternate character set selected (smacs)
	acsMap  map[byte]rune // byte -> glyph while acs (from the entry's acsc)
	g1acs   bool
	shifted bool

	// modes
	alt, cursorVis, keypad, autowrap         bool
	appCursor, m4                            bool
	m1000, m1002, m1003, m1006, m2004, m1004 bool
	cursorShape                              int
	cursorColorSet                           bool
	cursorColor                              int
	titleDepth                               int
	title                                    string
	savedTitle                               []string
	scrolled, wrapped                        bool
	clears                                   int
	beeps                                    int
	clip                                     string
	winW, winH                               int
	savedX, savedY                           int
	insertMode                               bool
}

func newRefVT(w, h int, width func(rune) int) *refVT {
	t := &refVT{w: w, h: h, utf8: true, width: width, autowrap: true, cursorVis: true}
	t.cells = make([]rvCell, w*h)
	for i := range t.cells {
		t.cells[i].r = ' '
	}
	return t
}

func (t *refVT) malformed(what string) {
	if len(t.bad) < 8 {
		t.bad = append(t.bad, what)
	}
}

func (t *refVT) resizeTo(w, h int) {
	nc := make([]rvCell, w*h)
	for i := range nc {
		nc[i].r = ' '
	}
	for y := 0; y < h && y < t.h; y++ {
		for x := 0; x < w && x < t.w; x++ {
			nc[y*w+x] = t.cells[y*t.w+x]
		}
	}
	t.cells, t.w, t.h = nc, w, h
	if t.cx >= w {
		t.cx = w - 1
	}
	if t.cy >= h {
		t.cy = h - 1
	}
}

// corrupt: the terminal's contents become arbitrary (other program output, line noise)
func (t *refVT) corrupt(r rune) {
	for i := range t.cells {
		t.cells[i] = rvCell{r: r, stamp: -1}
		t.cells[i].pen.bold = true
		t.cells[i].pen.fg = rvColor{1, 3}
	}
}

func (t *refVT) at(x, y int) *rvCell { return &t.cells[y*t.w+x] }

func (t *refVT) clearAll() {
	for i := range t.cells {
		t.cells[i] = rvCell{r: ' ', stamp: t.blk}
		t.cells[i].pen.bg = t.pen.bg
	}
	t.clears++
}

func (t *refVT) newline() {
	if t.cy < t.h-1 {
		t.cy++
	} else {
		t.scrolled = true
	}
}

func (t *refVT) put(r rune) {
	wd := t.width(r)
	if wd == 0 {
		// combining mark: attaches to the previous cell
		px, py := t.cx-1, t.cy
		if t.pend {
			px = t.cx
		}
		if px >= 0 && px < t.w {
			c := t.at(px, py)
			if c.cont && px > 0 {
				c = t.at(px-1, py)
			}
			c.comb = append(append([]rune{}, c.comb...), r)
			c.stamp = t.blk
		}
		return
	}
	if t.pend {
		if t.autowrap {
			t.wrapped = true
			t.cx = 0
			t.newline()
		}
		t.pend = false
	}
	if wd == 2 && t.cx == t.w-1 {
		// a wide character does not fit in the last column
		if t.autowrap {
			t.wrapped = true
			t.cx = 0
			t.newline()
		} else {
			t.malformed("wide character written in the last column")
			return
		}
	}
	c := t.at(t.cx, t.cy)
	// overwriting half of a wide character blanks the other half
	if c.cont && t.cx > 0 {
		o := t.at(t.cx-1, t.cy)
		o.r, o.comb = ' ', nil
	}
	if t.cx+1 < t.w && t.at(t.cx+1, t.cy).cont && wd == 1 {
		n := t.at(t.cx+1, t.cy)
		n.r, n.comb, n.cont = ' ', nil, false
	}
	*c = rvCell{r: r, pen: t.pen, stamp: t.blk}
	if wd == 2 {
		n := t.at(t.cx+1, t.cy)
		if t.cx+2 < t.w && t.at(t.cx+2, t.cy).cont {
			nn := t.at(t.cx+2, t.cy)
			nn.r, nn.comb, nn.cont = ' ', nil, false
		}
		*n = rvCell{r: 0, pen: t.pen, stamp: t.blk, cont: true}
	}
	t.cx += wd
	if t.cx >= t.w {
		t.cx = t.w - 1
		t.pend = true
	}
}

func rvIsDigit(b byte) bool { return b >= '0' && b <= '9' }

// Feed interprets one block of output.
func (t *refVT) Feed(b []byte) {
	t.blk++
	i := 0
	for i < len(b) {
		c := b[i]
		switch {
		case c == 0x1b:
			i = t.escape(b, i+1)
		case c == '\r':
			t.cx, t.pend = 0, false
			i++
		case c == '\n':
			t.newline()
			i++
		case c == '\b':
			if t.cx > 0 {
				t.cx--
			}
			t.pend = false
			i++
		case c == 0x07:
			t.beeps++
			i++
		case c == 0x0e:
			t.shifted = true
			i++
		case c == 0x0f:
			t.shifted = false
			i++
		case c < 0x20 || c == 0x7f:
			t.malformed("stray control byte")
			i++
		case c < 0x80:
			r := rune(c)
			if (t.acs || (t.shifted && t.g1acs)) && t.acsMap != nil {
				if g, ok := t.acsMap[c]; ok {
					r = g
				}
			}
			t.put(r)
			i++
		default:
			if !t.utf8 {
				if c < 0xa0 {
					t.malformed("C1 control byte in 8-bit output")
				} else {
					t.put(rune(c)) // caller maps through the charset
				}
				i++
				break
			}
			r, sz := utf8.DecodeRune(b[i:])
			if r == utf8.RuneError && sz <= 1 {
				t.malformed("invalid UTF-8 in output")
				i++
				break
			}
			if r >= 0x80 && r < 0xa0 {
				t.malformed("C1 control character in output")
			} else {
				t.put(r)
			}
			i += sz
		}
	}
	if len(t.bad) == 0 {
		return
	}
}

// number parses digits at b[i:]; returns value (-1 if none) and next index
func rvNumber(b []byte, i int) (int, int) {
	if i >= len(b) || !rvIsDigit(b[i]) {
		return -1, i
	}
	v := 0
	for i < len(b) && rvIsDigit(b[i]) {
		v = v*10 + int(b[i]-'0')
		i++
	}
	return v, i
}

func (t *refVT) escape(b []byte, i int) int {
	if i >= len(b) {
		t.malformed("escape sequence cut off at the end of a write")
		return i
	}
	c := b[i]
	switch c {
	case '[':
		return t.csi(b, i+1)
	case ']':
		return t.osc(b, i+1)
	case '(', ')':
		if i+1 >= len(b) {
			t.malformed("charset designation cut off")
			return i + 1
		}
		d := b[i+1]
		if d != '0' && d != 'B' && d != 'A' && d != 'U' && d != 'K' {
			t.malformed("unknown charset designator")
		}
		if c == '(' {
			t.acs = d == '0'
		} else {
			t.g1acs = d == '0'
		}
		return i + 2
	case '7':
		t.savedX, t.savedY = t.cx, t.cy
		return i + 1
	case '8':
		t.cx, t.cy, t.pend = t.savedX, t.savedY, false
		return i + 1
	case '=':
		t.keypad = true
		return i + 1
	case '>':
		t.keypad = false
		return i + 1
	case 'M', 'D', 'E', 'H', 'c':
		return i + 1
	case '\\':
		t.malformed("stray string terminator")
		return i + 1
	}
	t.malformed("unknown escape sequence")
	return i + 1
}

func (t *refVT) osc(b []byte, i int) int {
	num, j := rvNumber(b, i)
	if num < 0 {
		t.malformed("OSC without a number")
		return j
	}
	start := j
	if j < len(b) && b[j] == ';' {
		start = j + 1
	}
	k := start
	end, next := -1, -1
	for k < len(b) {
		if b[k] == 0x07 {
			end, next = k, k+1
			break
		}
		if b[k] == 0x1b && k+1 < len(b) && b[k+1] == '\\' {
			end, next = k, k+2
			break
		}
		if b[k] < 0x20 && b[k] != 0x1b {
			t.malformed("control byte inside OSC string")
		}
		k++
	}
	if end < 0 {
		t.malformed("unterminated OSC string")
		return len(b)
	}
	txt := string(b[start:end])
	switch num {
	case 0, 2:
		t.title = txt
	case 8:
		// params ; uri
		p := 0
		for p < len(txt) && txt[p] != ';' {
			p++
		}
		if p >= len(txt) {
			t.malformed("OSC 8 without uri separator")
			break
		}
		params, uri := txt[:p], txt[p+1:]
		t.pen.url = uri
		t.pen.urlid = ""
		if len(params) > 3 && params[:3] == "id=" {
			t.pen.urlid = params[3:]
		}
		if uri == "" {
			t.pen.urlid = ""
		}
	case 12:
		if len(txt) == 7 && txt[0] == '#' {
			v := 0
			ok := true
			for q := 1; q < 7; q++ {
				d := txt[q]
				switch {
				case d >= '0' && d <= '9':
					v = v*16 + int(d-'0')
				case d >= 'a' && d <= 'f':
					v = v*16 + int(d-'a') + 10
				case d >= 'A' && d <= 'F':
					v = v*16 + int(d-'A') + 10
				default:
					ok = false
				}
			}
			if !ok {
				t.malformed("OSC 12 colour is not #rrggbb")
			}
			t.cursorColorSet, t.cursorColor = true, v
		} else {
			t.malformed("OSC 12 colour is not #rrggbb")
		}
	case 112:
		t.cursorColorSet = false
	case 52:
		t.clip = txt
	}
	return next
}

func (t *refVT) csi(b []byte, i int) int {
	priv := byte(0)
	if i < len(b) && (b[i] == '?' || b[i] == '>' || b[i] == '<' || b[i] == '=') {
		priv = b[i]
		i++
	}
	var ps []int   // parameters (-1 = omitted)
	var sub []bool // parameter i was introduced by ':' (sub-parameter)
	colon := false
	for {
		v, j := rvNumber(b, i)
		ps = append(ps, v)
		sub = append(sub, colon)
		i = j
		if i < len(b) && (b[i] == ';' || b[i] == ':') {
			colon = b[i] == ':'
			i++
			continue
		}
		break
	}
	inter := byte(0)
	if i < len(b) && b[i] >= 0x20 && b[i] <= 0x2f {
		inter = b[i]
		i++
	}
	if i >= len(b) {
		t.malformed("control sequence cut off at the end of a write")
		return i
	}
	f := b[i]
	i++
	if f < 0x40 || f > 0x7e {
		t.malformed("control sequence with an invalid byte (parameter residue?)")
		return i
	}
	p := func(k, def int) int {
		if k < len(ps) && ps[k] >= 0 {
			return ps[k]
		}
		return def
	}
	switch {
	case priv == '?' && (f == 'h' || f == 'l'):
		on := f == 'h'
		for k := range ps {
			switch p(k, -1) {
			case 1:
				t.appCursor = on // DECCKM: some descriptions' keypad mode is just this
			case 4:
				t.m4 = on // (beterm's keypad string)
			case 7:
				t.autowrap = on
			case 25:
				t.cursorVis = on
			case 47, 1047, 1049:
				t.alt = on
			case 1000:
				t.m1000 = on
			case 1002:
				t.m1002 = on
			case 1003:
				t.m1003 = on
			case 1006:
				t.m1006 = on
			case 2004:
				t.m2004 = on
			case 1004:
				t.m1004 = on
			}
		}
	case priv != 0:
		// other private sequences (?c cursor on linux, >t title modes): accepted, ignored
	case inter == ' ' && f == 'q':
		t.cursorShape = p(0, 0)
	case inter != 0:
		// CSI " q etc.: accepted, ignored
	case f == 'H' || f == 'f':
		row, col := p(0, 1), p(1, 1)
		if row < 1 {
			row = 1
		}
		if col < 1 {
			col = 1
		}
		if row > t.h {
			row = t.h
		}
		if col > t.w {
			col = t.w
		}
		t.cy, t.cx, t.pend = row-1, col-1, false
	case f == 'J':
		switch p(0, 0) {
		case 2, 3:
			t.clearAll()
		case 0:
			if t.cx == 0 && t.cy == 0 {
				t.clearAll()
			} else {
				for y := t.cy; y < t.h; y++ {
					for x := 0; x < t.w; x++ {
						if y > t.cy || x >= t.cx {
							*t.at(x, y) = rvCell{r: ' ', stamp: t.blk}
						}
					}
				}
			}
		}
	case f == 'K':
		for x := t.cx; x < t.w; x++ {
			*t.at(x, t.cy) = rvCell{r: ' ', stamp: t.blk}
		}
	case f == '@':
		n := p(0, 1)
		for k := 0; k < n; k++ {
			for x := t.w - 1; x > t.cx; x-- {
				*t.at(x, t.cy) = *t.at(x-1, t.cy)
				t.at(x, t.cy).stamp = t.blk
			}
			*t.at(t.cx, t.cy) = rvCell{r: ' ', stamp: t.blk}
			t.at(t.cx, t.cy).pen.bg = t.pen.bg
		}
		t.pend = false
	case f == 'm':
		t.sgr(ps, sub)
	case f == 'h' || f == 'l':
		if p(0, 0) == 4 {
			t.insertMode = f == 'h'
		}
	case f == 't':
		switch p(0, 0) {
		case 22:
			t.savedTitle = append(t.savedTitle, t.title)
			t.titleDepth++
		case 23:
			if n := len(t.savedTitle); n > 0 {
				t.title = t.savedTitle[n-1]
				t.savedTitle = t.savedTitle[:n-1]
			}
			t.titleDepth--
		case 8:
			t.winH, t.winW = p(1, 0), p(2, 0)
		}
	default:
		// well-formed but not modelled (CSI r, CSI A..D, ...): accepted, ignored
	}
	return i
}

func (t *refVT) sgr(ps []int, sub []bool) {
	for k := 0; k < len(ps); k++ {
		v := ps[k]
		if v < 0 {
			v = 0
		}
		switch {
		case v == 0:
			t.pen = rvPen{url: t.pen.url, urlid: t.pen.urlid}
		case v == 1:
			t.pen.bold = true
		case v == 2:
			t.pen.dim = true
		case v == 3:
			t.pen.italic = true
		case v == 4:
			t.pen.under = 1
			if k+1 < len(ps) && sub[k+1] {
				t.pen.under = ps[k+1]
				if ps[k+1] < 0 || ps[k+1] > 5 {
					t.malformed("unknown underline style")
				}
				k++
			}
		case v == 5 || v == 6:
			t.pen.blink = true
		case v == 7:
			t.pen.reverse = true
		case v == 9:
			t.pen.strike = true
		case v == 10, v == 11, v == 12:
			t.acs = v != 10 // primary / alternate font (ansi, cygwin, pcansi)
		case v == 21:
			t.pen.under = 2
		case v == 22:
			t.pen.bold, t.pen.dim = false, false
		case v == 23:
			t.pen.italic = false
		case v == 24:
			t.pen.under = 0
		case v == 25:
			t.pen.blink = false
		case v == 27:
			t.pen.reverse = false
		case v == 29:
			t.pen.strike = false
		case v >= 30 && v <= 37:
			t.pen.fg = rvColor{1, v - 30}
		case v >= 40 && v <= 47:
			t.pen.bg = rvColor{1, v - 40}
		case v >= 90 && v <= 97:
			t.pen.fg = rvColor{1, v - 90 + 8}
		case v >= 100 && v <= 107:
			t.pen.bg = rvColor{1, v - 100 + 8}
		case v == 39:
			t.pen.fg = rvColor{}
		case v == 49:
			t.pen.bg = rvColor{}
		case v == 59:
			t.pen.ul = rvColor{}
		case v == 38 || v == 48 || v == 58:
			var col rvColor
			n := 0
			if k+1 < len(ps) && ps[k+1] == 5 && k+2 < len(ps) {
				col = rvColor{1, ps[k+2]}
				n = 2
				if ps[k+2] < 0 || ps[k+2] > 255 {
					t.malformed("palette index out of range")
				}
			} else if k+1 < len(ps) && ps[k+1] == 2 {
				// 38;2;r;g;b  or  38:2::r:g:b (empty colour-space id)
				q := k + 2
				if q < len(ps) && ps[q] < 0 && sub[q] && q+3 < len(ps) {
					q++
				}
				if q+2 < len(ps) {
					r, g, bl := ps[q], ps[q+1], ps[q+2]
					if r < 0 || r > 255 || g < 0 || g > 255 || bl < 0 || bl > 255 {
						t.malformed("RGB component out of range")
					}
					col = rvColor{2, r<<16 | g<<8 | bl}
					n = q + 2 - k
				} else {
					t.malformed("truncated RGB colour")
				}
			} else {
				t.malformed("unknown extended colour form")
			}
			switch v {
			case 38:
				t.pen.fg = col
			case 48:
				t.pen.bg = col
			default:
				t.pen.ul = col
			}
			k += n
		default:
			t.malformed("unknown SGR parameter")
		}
	}
}
