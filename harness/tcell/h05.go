//go:build verif && !js

package tcell

import "time"

// C05 — events are delivered exactly once, in order, with back-pressure not loss.
//
// Decided as step contracts of the real pipeline stages from chosen queue
// states (sequential engine; Go's channel FIFO semantics are assumed).

type h05Ev struct {
	EventTime
	id int
}

func h05Fill(e *h01Env, n int) {
	for i := 0; i < n; i++ {
		err := e.s.PostEvent(&h05Ev{id: 1000 + i})
		vsymAssert(err == nil, "PostEvent succeeds while the queue has room")
	}
}

// H05_post: PostEvent returns nil iff it enqueued (ErrEventQFull exactly when full);
// HasPendingEvent => the next PollEvent does not block and returns the head; FIFO order.
func H05_post() {
	e := h01New("xterm-256color", 3, 1, false)
	for e.s.HasPendingEvent() {
		e.s.PollEvent()
	}
	n := vsymChoice("fill", 11) // 0..10 = queue capacity
	h05Fill(e, n)
	before := len(e.t.eventQ)
	vsymAssert(before == n, "every PostEvent that returned nil is queued")
	err := e.s.PostEvent(&h05Ev{id: 7})
	if n < 10 {
		vsymAssert(err == nil && len(e.t.eventQ) == before+1, "PostEvent returns nil exactly when it enqueued")
	} else {
		vsymAssert(err == ErrEventQFull && len(e.t.eventQ) == before, "PostEvent reports ErrEventQFull exactly when it did not enqueue")
	}
	// delivery: in order, exactly once
	want := n
	if n < 10 {
		want = n + 1
	}
	for i := 0; i < want; i++ {
		vsymAssert(e.s.HasPendingEvent(), "HasPendingEvent is true while events are queued")
		ev, ok := e.s.PollEvent().(*h05Ev) // must not block: a blocked path is reported by the engine
		vsymAssert(ok, "a posted event is delivered as it was posted")
		if ok {
			exp := 1000 + i
			if i == n {
				exp = 7
			}
			vsymAssert(ev.id == exp, "posted events are delivered in posting order, exactly once")
		}
	}
	vsymAssert(!e.s.HasPendingEvent(), "nothing is delivered twice")
	e.s.Fini()
}

// H05_scan: input decoded while the queue is full is held back (the main loop
// blocks) and delivered in input order once the application polls; nothing is dropped.
func H05_scan() {
	e := h01New("xterm-256color", 3, 1, false)
	for e.s.HasPendingEvent() {
		e.s.PollEvent()
	}
	pre := vsymChoice("prefill", 3) * 5 // 0, 5, 10
	h05Fill(e, pre)
	m := 1 + vsymChoice("keys", 4)
	chunk := make([]byte, m)
	for i := range chunk {
		chunk[i] = byte('a' + i)
	}
	split := vsymChoice("split", m+1)
	if split > 0 {
		e.tty.inCh <- chunk[:split]
	}
	if split < m {
		e.tty.inCh <- chunk[split:]
	}
	vsymRunBlocked()
	// the application now polls everything
	got := 0
	for i := 0; i < pre+m; i++ {
		if !e.s.HasPendingEvent() {
			vsymRunBlocked() // let the held-back input through
		}
		vsymAssert(e.s.HasPendingEvent(), "held-back input is delivered once the application polls")
		if !e.s.HasPendingEvent() {
			break
		}
		ev := e.s.PollEvent()
		vsymRunBlocked()
		if i < pre {
			p, ok := ev.(*h05Ev)
			vsymAssert(ok && p.id == 1000+i, "earlier posted events keep their place")
			continue
		}
		k, ok := ev.(*EventKey)
		vsymAssert(ok && k.Key() == KeyRune && k.Rune() == rune('a'+got), "key events arrive exactly once and in input order")
		got++
	}
	vsymAssert(got == m, "every typed key is delivered")
	vsymRunBlocked()
	vsymAssert(!e.s.HasPendingEvent(), "no key is delivered twice")
	e.s.Fini()
}

// H05_expire: a lone ESC is decoded only when the escape timer expires.  If the event
// queue is full at that moment (any fill level up to full is explored) the ESC is held
// back like any other input - never dropped - and later input stays behind it.
func H05_expire() {
	e := h01New("xterm-256color", 3, 1, false)
	for e.s.HasPendingEvent() {
		e.s.PollEvent()
	}
	m := 1 + vsymChoice("keys", 3)
	pre := []int{0, 10 - m, 9 - m}[vsymChoice("prefill", 3)] // queue full / one short of full once the keys are in
	h05Fill(e, pre)
	chunk := make([]byte, 0, m+1)
	for i := 0; i < m; i++ {
		chunk = append(chunk, byte('a'+i))
	}
	chunk = append(chunk, 0x1b)
	e.tty.inCh <- chunk
	vsymRunBlocked()
	vsymAssert(len(e.t.eventQ) == pre+m, "the keys before the ESC are queued, the ESC waits for the escape timer")
	// the escape timeout passes (the deadline is moved into the past; the timer fires)
	e.t.Lock()
	e.t.keyexpire = time.Time{}
	e.t.Unlock()
	vsymFireTimers()
	vsymRunBlocked()
	e.tty.inCh <- []byte{'z'}
	vsymRunBlocked()
	total := pre + m + 2
	for i := 0; i < total; i++ {
		if !e.s.HasPendingEvent() {
			vsymRunBlocked()
		}
		vsymAssert(e.s.HasPendingEvent(), "input held back by a full queue is delivered once the application polls (nothing is dropped)")
		if !e.s.HasPendingEvent() {
			break
		}
		ev := e.s.PollEvent()
		vsymRunBlocked()
		switch {
		case i < pre:
			p, ok := ev.(*h05Ev)
			vsymAssert(ok && p.id == 1000+i, "earlier posted events keep their place")
		case i < pre+m:
			k, ok := ev.(*EventKey)
			vsymAssert(ok && k.Key() == KeyRune && k.Rune() == rune('a'+i-pre), "key events arrive exactly once and in input order")
		case i == pre+m:
			k, ok := ev.(*EventKey)
			vsymAssert(ok && k.Key() == KeyEsc, "the lone ESC decoded at the escape timeout is delivered in its place, not dropped")
		default:
			k, ok := ev.(*EventKey)
			vsymAssert(ok && k.Key() == KeyRune && k.Rune() == 'z', "input typed after the ESC arrives after it")
		}
	}
	vsymRunBlocked()
	vsymAssert(!e.s.HasPendingEvent(), "no event is delivered twice")
	e.s.Fini()
}

// H05_concurrent: the reader, the main loop and the polling application run concurrently:
// 2..4 keys arrive in two reads while the application polls, with up to `preempt` forced
// context switches at synchronisation points.  Under every such interleaving the keys
// arrive exactly once and in input order, and an event the application posted itself
// is delivered too.
func H05_concurrent() {
	e := h01New("xterm-256color", 3, 1, false)
	for e.s.HasPendingEvent() {
		e.s.PollEvent()
	}
	m := 2 + vsymChoice("keys", 3)
	split := 1 + vsymChoice("split", m-1)
	post := vsymChoice("post", 2) == 1
	keys := make([]byte, m)
	for i := range keys {
		keys[i] = byte('a' + i)
	}
	vsymPreemptWindow(true)
	e.tty.inCh <- keys[:split]
	if post {
		vsymAssert(e.s.PostEvent(&h05Ev{id: 7}) == nil, "PostEvent succeeds while the queue has room")
	}
	e.tty.inCh <- keys[split:]
	got, posted := 0, 0
	total := m
	if post {
		total++
	}
	for i := 0; i < total; i++ {
		switch ev := e.s.PollEvent().(type) { // blocks until an event is there: a blocked path is reported
		case *EventKey:
			vsymAssert(ev.Key() == KeyRune && ev.Rune() == rune('a'+got), "key events arrive exactly once and in input order under every interleaving")
			got++
		case *h05Ev:
			vsymAssert(ev.id == 7, "the posted event is delivered as posted")
			posted++
		default:
			vsymAssert(false, "only the typed keys and the posted event are delivered")
		}
	}
	vsymPreemptWindow(false)
	vsymAssert(got == m, "every typed key is delivered")
	vsymAssert(post == (posted == 1), "the posted event is delivered exactly once")
	vsymRunBlocked()
	vsymAssert(!e.s.HasPendingEvent(), "nothing is delivered twice")
	e.s.Fini()
}

// H05_resize: a window-size change (notified by the tty, or noticed by Sync) while the
// event queue holds 0..10 undelivered events never costs an event that was already
// accepted: every posted event is still delivered exactly once and in order (the resize
// event itself may be coalesced or dropped when there is no room).
func H05_resize() {
	e := h01New("xterm-256color", 3, 1, false)
	for e.s.HasPendingEvent() {
		e.s.PollEvent()
	}
	n := []int{0, 5, 9, 10}[vsymChoice("fill", 4)]
	h05Fill(e, n)
	e.tty.w, e.tty.h = 4, 2
	e.tty.vt.resizeTo(4, 2)
	if vsymChoice("how", 2) == 0 {
		if e.tty.cb != nil {
			e.tty.cb()
		}
		vsymRunBlocked()
	} else {
		e.s.Sync()
	}
	seen, resizes := 0, 0
	for i := 0; i < n+2; i++ {
		if !e.s.HasPendingEvent() {
			vsymRunBlocked()
		}
		if !e.s.HasPendingEvent() {
			break
		}
		switch ev := e.s.PollEvent().(type) {
		case *h05Ev:
			vsymAssert(ev.id == 1000+seen, "events accepted before the resize are delivered in order, none discarded")
			seen++
		case *EventResize:
			resizes++
		default:
			vsymAssert(false, "only the posted events and resize events are delivered")
		}
		vsymRunBlocked()
	}
	vsymAssert(seen == n, "every event accepted before the resize is delivered exactly once")
	vsymAssert(resizes <= 1, "at most one resize event per size change")
	if n < 10 {
		vsymAssert(resizes == 1, "with room in the queue the resize event is delivered")
	}
	w, h := e.s.Size()
	vsymAssert(w == 4 && h == 2, "the screen has the new size")
	e.s.Fini()
}

// H05_chanquit: ChannelEvents is cancelled through quit while its consumer is not
// receiving (the forwarder holds an event it already took off the queue).  Whatever the
// application polls afterwards is still in posting order - an event is never re-queued
// behind later ones.
func H05_chanquit() {
	e := h01New("xterm-256color", 3, 1, false)
	for e.s.HasPendingEvent() {
		e.s.PollEvent()
	}
	n := 2 + vsymChoice("n", 3)
	h05Fill(e, n)
	ch := make(chan Event, 1)
	ch <- NewEventInterrupt(nil) // the consumer's channel is full and nobody receives
	quit := make(chan struct{})
	go e.s.ChannelEvents(ch, quit)
	vsymRunBlocked()
	close(quit)
	vsymRunBlocked()
	last := 999
	for i := 0; i < n+1 && e.s.HasPendingEvent(); i++ {
		p, ok := e.s.PollEvent().(*h05Ev)
		vsymAssert(ok, "only posted events are queued")
		if ok {
			vsymAssert(p.id > last, "events polled after ChannelEvents was cancelled are in posting order (none re-queued behind later ones)")
			last = p.id
		}
	}
	e.s.Fini()
}

// H05_chan: ChannelEvents forwards in order and closes its channel on quit and on Fini.
func H05_chan() {
	e := h01New("xterm-256color", 3, 1, false)
	for e.s.HasPendingEvent() {
		e.s.PollEvent()
	}
	n := 1 + vsymChoice("n", 4)
	h05Fill(e, n)
	ch := make(chan Event, 8)
	quit := make(chan struct{})
	go e.s.ChannelEvents(ch, quit)
	vsymRunBlocked()
	for i := 0; i < n; i++ {
		ev, ok := <-ch
		vsymAssert(ok, "ChannelEvents forwards queued events")
		p, isP := ev.(*h05Ev)
		vsymAssert(isP && p.id == 1000+i, "ChannelEvents forwards in order")
	}
	if vsymChoice("how", 2) == 0 {
		close(quit)
	} else {
		e.s.Fini()
	}
	vsymRunBlocked()
	_, ok := <-ch
	vsymAssert(!ok, "ChannelEvents closes its channel on quit and on Fini")
	if !e.t.fini {
		e.s.Fini()
	}
}

// H05_when: When() of a decoded event lies between the arrival of its bytes and its delivery.
func H05_when() {
	e := h01New("xterm-256color", 3, 1, false)
	for e.s.HasPendingEvent() {
		e.s.PollEvent()
	}
	vsymSetenv("VSYM_CLOCK", "symbolic") // arbitrary non-decreasing instants from here on
	t0 := time.Now()
	e.tty.inCh <- []byte{'x'}
	vsymRunBlocked()
	vsymAssert(e.s.HasPendingEvent(), "the key is delivered")
	if e.s.HasPendingEvent() {
		ev := e.s.PollEvent()
		t1 := time.Now()
		w := ev.When()
		vsymAssert(!w.Before(t0), "When() is not before the arrival of the event's cause")
		vsymAssert(!w.After(t1), "When() is not after the delivery of the event")
	}
	e.s.Fini()
}
