//go:build verif && !js

package tcell

import (
	ic "image/color"
	"math"

	"github.com/lucasb-eyer/go-colorful"
)

// C16 — colour conversions, table, names, FindColor.

// H16_conv: RGB round-trips for every 24-bit value and arbitrary int32 components.
func H16_conv() {
	r, g, b := vsymInt32("r"), vsymInt32("g"), vsymInt32("b")
	c := NewRGBColor(r, g, b)
	vsymAssert(c.Valid(), "NewRGBColor is valid")
	vsymAssert(c.IsRGB(), "NewRGBColor is RGB")
	r2, g2, b2 := c.RGB()
	vsymAssert(r2 == r&0xff, "RGB red round-trips (mod 256)")
	vsymAssert(g2 == g&0xff, "RGB green round-trips (mod 256)")
	vsymAssert(b2 == b&0xff, "RGB blue round-trips (mod 256)")
	vsymAssert(c.Hex() == (r&0xff)<<16|(g&0xff)<<8|(b&0xff), "Hex = r<<16|g<<8|b")
	vsymAssert(c.TrueColor() == c, "TrueColor of an RGB colour is itself")

	v := vsymInt32("v")
	vsymAssume(v >= 0 && v <= 0xffffff)
	h := NewHexColor(v)
	vsymAssert(h.Valid() && h.IsRGB(), "NewHexColor valid RGB")
	vsymAssert(h.Hex() == v, "NewHexColor/Hex round-trip")
	hr, hg, hb := h.RGB()
	vsymAssert(NewRGBColor(hr, hg, hb) == h, "RGB/NewRGBColor round-trip")
	vsymAssert(h.TrueColor() == h, "TrueColor idempotent on RGB")
}

// H16_special: default, none, reset and every value without ColorValid are invalid and report -1.
func H16_special() {
	x := vsymUint64("x")
	c := Color(x)
	vsymAssume(c&ColorValid == 0)
	vsymAssert(!c.Valid(), "no ColorValid bit => not valid")
	vsymAssert(!c.IsRGB(), "no ColorValid bit => not RGB")
	vsymAssert(c.Hex() == -1, "invalid colour Hex is -1")
	r, g, b := c.RGB()
	vsymAssert(r == -1 && g == -1 && b == -1, "invalid colour RGB is -1,-1,-1")
	vsymAssert(c.TrueColor() == ColorDefault, "invalid colour TrueColor is default")
	vsymAssert(c.CSS() == "", "invalid colour CSS is empty")
	vsymAssert(!ColorDefault.Valid() && !ColorNone.Valid() && !ColorReset.Valid(), "default/none/reset are not valid")
	vsymAssert(ColorDefault.Hex() == -1 && ColorNone.Hex() == -1 && ColorReset.Hex() == -1, "default/none/reset Hex -1")
}

// H16_image: FromImageColor keeps the high byte of each 16-bit channel.
func H16_image() {
	r, g, b, a := vsymByte("r"), vsymByte("g"), vsymByte("b"), vsymByte("a")
	c := FromImageColor(ic.NRGBA{R: r, G: g, B: b, A: 0xff})
	vsymAssert(c == NewRGBColor(int32(r), int32(g), int32(b)), "FromImageColor(opaque NRGBA) exact")
	_ = a
	r16, g16, b16 := vsymUint16("r16"), vsymUint16("g16"), vsymUint16("b16")
	c2 := FromImageColor(ic.RGBA64{R: r16, G: g16, B: b16, A: 0xffff})
	vsymAssert(c2 == NewRGBColor(int32(r16>>8), int32(g16>>8), int32(b16>>8)), "FromImageColor(RGBA64) keeps high bytes")
	vsymAssert(c2.Valid() && c2.IsRGB(), "FromImageColor valid RGB")
}

// H16_table: palette 0..255 has the standard xterm RGB values.
var h16ansi = [16]int32{0x000000, 0x800000, 0x008000, 0x808000, 0x000080, 0x800080, 0x008080, 0xc0c0c0,
	0x808080, 0xff0000, 0x00ff00, 0xffff00, 0x0000ff, 0xff00ff, 0x00ffff, 0xffffff}
var h16levels = [6]int32{0, 95, 135, 175, 215, 255}

func H16_table() {
	switch vsymChoice("region", 3) {
	case 0: // 16 ANSI colours
		i := vsymInt("i")
		vsymAssume(i >= 0 && i < 16)
		c := PaletteColor(i)
		vsymAssert(c.Valid() && !c.IsRGB(), "palette colour valid, not RGB")
		vsymAssert(c.Hex() == h16ansi[i], "ANSI colour i has the xterm RGB value")
	case 1: // 6x6x6 cube
		r, g, b := vsymInt("r"), vsymInt("g"), vsymInt("b")
		vsymAssume(r >= 0 && r < 6 && g >= 0 && g < 6 && b >= 0 && b < 6)
		// index 16+36r+6g+b, spelled with tables (constant multiplication stalls the bit-blaster)
		m36 := [6]int{0, 36, 72, 108, 144, 180}
		m6 := [6]int{0, 6, 12, 18, 24, 30}
		c := PaletteColor(16 + m36[r] + m6[g] + b)
		vsymAssert(c.Hex() == h16levels[r]<<16|h16levels[g]<<8|h16levels[b], "cube colour 16+36r+6g+b has levels (r,g,b)")
		cr, cg, cb := c.RGB()
		vsymAssert(cr == h16levels[r] && cg == h16levels[g] && cb == h16levels[b], "cube colour RGB components")
		vsymAssert(c.TrueColor() == NewRGBColor(cr, cg, cb), "TrueColor of palette colour is its RGB value")
	case 2: // 24 greys
		k := vsymInt("k")
		vsymAssume(k >= 0 && k < 24)
		c := PaletteColor(232 + k)
		v := int32(8 + 10*k)
		vsymAssert(c.Hex() == v<<16|v<<8|v, "grey 232+k has level 8+10k")
	}
}

// H16_names: every W3C/CSS colour name resolves to its CSS value.
func H16_names() {
	idx := vsymInt("idx")
	vsymAssume(idx >= 0 && idx < len(h16CSS))
	e := h16CSS[idx]
	c := GetColor(e.name)
	vsymNote("name", e.name)
	vsymAssert(c.Valid(), "W3C colour name is known")
	vsymAssert(c.Hex() == e.v, "W3C colour name maps to its CSS value")
	vsymAssert(c.TrueColor().Hex() == e.v, "TrueColor of named colour keeps the CSS value")
}

// H16_css: CSS()/GetColor("#RRGGBB") round-trip for every 24-bit value.
func H16_css() {
	v := vsymInt32("v")
	vsymAssume(v >= 0 && v <= 0xffffff)
	c := NewHexColor(v)
	s := c.CSS()
	vsymAssert(len(s) == 7 && s[0] == '#', "CSS() is # followed by six characters")
	vsymAssert(GetColor(s) == c, "GetColor(CSS()) round-trips")
}

// H16_near: palettes holding the colour itself, a near-duplicate of it (one channel
// changed in its low two bits) and an arbitrary third colour, in every order: the
// region where early exits and thresholds in the search show, and where the real
// CIE76 values agree with what the solver may assume of the uninterpreted distance
// (so counterexamples replay).  Same oracle as H16_find.
func H16_near() {
	c := h16color("c", 1)
	ch := vsymChoice("channel", 3)
	d := vsymInt("delta")
	vsymAssume(vsymAnd(d >= 1, d <= 3))
	near := Color(uint64(c) ^ (uint64(d) << (8 * uint(ch))))
	far := h16color("far", 1)
	var pal []Color
	switch vsymChoice("order", 6) {
	case 0:
		pal = []Color{near, c, far}
	case 1:
		pal = []Color{near, far, c}
	case 2:
		pal = []Color{c, near, far}
	case 3:
		pal = []Color{far, near, c}
	case 4:
		pal = []Color{far, c, near}
	default:
		pal = []Color{c, far, near}
	}
	m := FindColor(c, pal)
	member := false
	for i := range pal {
		member = vsymOr(member, pal[i] == m)
	}
	vsymAssert(member, "FindColor result is a member of the palette")
	dm := h16distance(c, m)
	for i := range pal {
		di := h16distance(c, pal[i])
		vsymAssert(!(di < dm), "no palette member is strictly closer than the result (palette with near-duplicates)")
	}
}

// h16distance computes the distance exactly as FindColor does (same library
// call, hence the same uninterpreted function in the engine; NaN counts as +Inf).
func h16distance(c, d Color) float64 {
	r, g, b := c.RGB()
	c1 := colorful.Color{R: float64(r) / 255.0, G: float64(g) / 255.0, B: float64(b) / 255.0}
	r, g, b = d.RGB()
	c2 := colorful.Color{R: float64(r) / 255.0, G: float64(g) / 255.0, B: float64(b) / 255.0}
	nd := c1.DistanceCIE76(c2)
	if math.IsNaN(nd) {
		nd = math.Inf(1)
	}
	return nd
}

// h16color returns a symbolic valid colour of a chosen kind: 0 = palette index
// 0..255, 1 = 24-bit RGB, 2 = any other word with ColorValid (unknown to the table).
func h16color(name string, kind int) Color {
	switch kind {
	case 0:
		return Color(vsymByte(name)) | ColorValid
	case 1:
		return Color(vsymUint32(name)&0xffffff) | ColorValid | ColorIsRGB
	}
	c := Color(vsymUint64(name))
	vsymAssume(c.Valid())
	return c
}

// H16_find: FindColor returns a palette member and no member is strictly closer.
// The CIE76 distance is an uninterpreted Float64 function (may be NaN).
func H16_find() {
	n := vsymChoice("n", vsymParam("maxpal", 3)+1)
	c := h16color("c", vsymChoice("kc", vsymParam("kinds", 3)))
	pal := make([]Color, n)
	for i := range pal {
		pal[i] = h16color("p", vsymChoice("kp", vsymParam("kinds", 3)))
	}
	m := FindColor(c, pal)
	if n == 0 {
		vsymAssert(m == ColorDefault, "empty palette gives the default colour")
		return
	}
	member := false
	for i := range pal {
		member = vsymOr(member, pal[i] == m)
	}
	vsymAssert(member, "FindColor result is a member of the palette")
	dm := h16distance(c, m)
	for i := range pal {
		di := h16distance(c, pal[i])
		vsymAssert(!(di < dm), "no palette member is strictly closer than the result")
	}
}
