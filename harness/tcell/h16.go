//go:build verif

package tcell

import (
	ic "image/color"
)

// C16 — colour conversions, table, names, FindColor.

// H16_conv: RGB round-trips for every 24-bit value and arbitrary int32 components.
func H16_conv() {
	r, g, b := vsymInt32("r"), vsymInt32("g"), vsymInt32("b")
	c := NewRGBColor(r, g, b)
	vsymAssert(c.Valid(), "NewRGBColor is valid")
	vsymAssert(c.IsRGB(), "NewRGBColor is RGB")
	r2, g2, b2 := c.RGB()
	vsymAssert(r2 == r&0xff, "RGB red round-trips (mod 256)")
	vsymAssert(g2 == g&0xff, "RGB green round-trips (mod 256)")
	vsymAssert(b2 == b&0xff, "RGB blue round-trips (mod 256)")
	vsymAssert(c.Hex() == (r&0xff)<<16|(g&0xff)<<8|(b&0xff), "Hex = r<<16|g<<8|b")
	vsymAssert(c.TrueColor() == c, "TrueColor of an RGB colour is itself")

	v := vsymInt32("v")
	vsymAssume(v >= 0 && v <= 0xffffff)
	h := NewHexColor(v)
	vsymAssert(h.Valid() && h.IsRGB(), "NewHexColor valid RGB")
	vsymAssert(h.Hex() == v, "NewHexColor/Hex round-trip")
	hr, hg, hb := h.RGB()
	vsymAssert(NewRGBColor(hr, hg, hb) == h, "RGB/NewRGBColor round-trip")
	vsymAssert(h.TrueColor() == h, "TrueColor idempotent on RGB")
}

// H16_special: default, none, reset and every value without ColorValid are invalid and report -1.
func H16_special() {
	x := vsymUint64("x")
	c := Color(x)
	vsymAssume(c&ColorValid == 0)
	vsymAssert(!c.Valid(), "no ColorValid bit => not valid")
	vsymAssert(!c.IsRGB(), "no ColorValid bit => not RGB")
	vsymAssert(c.Hex() == -1, "invalid colour Hex is -1")
	r, g, b := c.RGB()
	vsymAssert(r == -1 && g == -1 && b == -1, "invalid colour RGB is -1,-1,-1")
	vsymAssert(c.TrueColor() == ColorDefault, "invalid colour TrueColor is default")
	vsymAssert(c.CSS() == "", "invalid colour CSS is empty")
	vsymAssert(!ColorDefault.Valid() && !ColorNone.Valid() && !ColorReset.Valid(), "default/none/reset are not valid")
	vsymAssert(ColorDefault.Hex() == -1 && ColorNone.Hex() == -1 && ColorReset.Hex() == -1, "default/none/reset Hex -1")
}

// H16_image: FromImageColor keeps the high byte of each 16-bit channel.
func H16_image() {
	r, g, b, a := vsymByte("r"), vsymByte("g"), vsymByte("b"), vsymByte("a")
	c := FromImageColor(ic.NRGBA{R: r, G: g, B: b, A: 0xff})
	vsymAssert(c == NewRGBColor(int32(r), int32(g), int32(b)), "FromImageColor(opaque NRGBA) exact")
	_ = a
	r16, g16, b16 := vsymUint16("r16"), vsymUint16("g16"), vsymUint16("b16")
	c2 := FromImageColor(ic.RGBA64{R: r16, G: g16, B: b16, A: 0xffff})
	vsymAssert(c2 == NewRGBColor(int32(r16>>8), int32(g16>>8), int32(b16>>8)), "FromImageColor(RGBA64) keeps high bytes")
	vsymAssert(c2.Valid() && c2.IsRGB(), "FromImageColor valid RGB")
}
