//go:build verif && !js

package tcell

import (
	"bytes"

	"github.com/gdamore/tcell/v2/terminfo"
)

// hNewTScreen builds a real tScreen for a database entry without a tty
// (enough for the input parsers and key tables; Init is not run).
func hNewTScreen(term string) *tScreen {
	ti := terminfo.VerifGet(term)
	if ti == nil {
		vsymCutPath("no such terminal " + term)
	}
	s, err := NewTerminfoScreenFromTtyTerminfo(nil, ti)
	if err != nil {
		vsymCutPath("constructor failed")
	}
	t := s.(*baseScreen).screenImpl.(*tScreen)
	t.charset = "UTF-8"
	enc := GetEncoding("UTF-8")
	t.encoder = enc.NewEncoder()
	t.decoder = enc.NewDecoder()
	return t
}

// C12 — mouse reports decode to the right position, buttons and modifiers.

// h12Digits builds a decimal field of 1..3 symbolic digits (optionally negative) and returns bytes + value.
func h12Field(tag string, allowNeg bool) ([]byte, int) {
	n := 1 + vsymChoice(tag+".nd", vsymParam("maxdigits", 3))
	var out []byte
	neg := false
	if allowNeg && vsymChoice(tag+".neg", 2) == 1 {
		neg = true
		out = append(out, '-')
	}
	v := 0
	for i := 0; i < n; i++ {
		d := vsymByte(tag + ".d")
		vsymAssume(vsymAnd(d >= '0', d <= '9'))
		out = append(out, d)
		v = v*10 + int(d-'0')
	}
	if neg {
		v = -v
	}
	return out, v
}

type h12Expect struct {
	x, y      int
	mod       ModMask
	btnKnown  bool
	btn       ButtonMask
	heldKnown bool
	held      bool
}

func h12Clip(v, lim int) int {
	v = vsymIteInt(v > lim-1, lim-1, v)
	return vsymIteInt(v < 0, 0, v)
}

func h12b2i(b bool) int { return vsymIteInt(b, 1, 0) }

// h12Reference: xterm's decoding of button code c (after removing the offset),
// final byte (release for SGR 'm'), and the press state before the report.
// Written branch-free (ite terms) so that the reference adds no paths.
func h12Reference(c int, release bool, heldBefore bool, px, py, w, h int) h12Expect {
	x, y := h12Clip(px-1, w), h12Clip(py-1, h)
	mod := h12b2i(c&4 != 0)*int(ModShift) + h12b2i(c&8 != 0)*int(ModAlt) + h12b2i(c&16 != 0)*int(ModCtrl)
	motion := c&32 != 0
	k := c &^ 32
	exotic := vsymOr(k&0x80 != 0, vsymOr(k&0xC3 == 0x42, k&0xC3 == 0x43)) // buttons 8-11, wheel left/right
	wheel := vsymOr(k&0xC3 == 0x40, k&0xC3 == 0x41)
	b3 := k & 3
	pressBtn := vsymIteInt(b3 == 0, int(Button1), vsymIteInt(b3 == 1, int(Button3), vsymIteInt(b3 == 2, int(Button2), int(ButtonNone))))
	wheelBtn := vsymIteInt(k&1 == 0, int(WheelUp), int(WheelDown))
	dragBtn := vsymIteInt(vsymAnd(heldBefore, b3 != 3), pressBtn, int(ButtonNone))
	// button mask
	btn := vsymIteInt(release, int(ButtonNone),
		vsymIteInt(wheel, wheelBtn,
			vsymIteInt(motion, dragBtn, pressBtn)))
	btnKnown := vsymOr(release, vsymAnd(!exotic, vsymOr(!wheel, !motion)))
	// press state afterwards
	held := vsymIteInt(release, 0,
		vsymIteInt(vsymOr(wheel, motion), h12b2i(heldBefore),
			vsymIteInt(b3 == 3, 0, 1)))
	heldKnown := vsymOr(release, vsymAnd(!exotic, vsymAnd(vsymOr(!wheel, !motion), vsymOr(vsymOr(wheel, motion), b3 != 3))))
	return h12Expect{x: x, y: y, mod: ModMask(mod), btnKnown: btnKnown, btn: ButtonMask(btn), heldKnown: heldKnown, held: held == 1}
}

func h12Check(t *tScreen, evs []Event, e h12Expect, what string) {
	vsymAssert(len(evs) == 1, what+": exactly one event")
	if len(evs) != 1 {
		return
	}
	m, ok := evs[0].(*EventMouse)
	vsymAssert(ok, what+": the event is a mouse event")
	if !ok {
		return
	}
	x, y := m.Position()
	vsymAssert(x == e.x, what+": column is the reported column - 1, clipped into the screen")
	vsymAssert(y == e.y, what+": row is the reported row - 1, clipped into the screen")
	vsymAssert(m.Modifiers() == e.mod, what+": Shift/Alt/Ctrl match bits 4/8/16 of the button code")
	vsymAssert(vsymImplies(e.btnKnown, m.Buttons() == e.btn), what+": button mask matches xterm's encoding")
	vsymAssert(vsymImplies(e.heldKnown, t.buttondn == e.held), what+": press state follows press/release")
}

func h12Screen() (*tScreen, int, int) {
	t := hNewTScreen("xterm-256color")
	w, h := vsymInt("w"), vsymInt("h")
	vsymAssume(vsymAnd(vsymAnd(w >= 1, w <= 300), vsymAnd(h >= 1, h <= 300)))
	t.cells.w, t.cells.h = w, h
	t.w, t.h = w, h
	t.buttondn = vsymBool("held")
	return t, w, h
}

// H12_sgr: one SGR (1006) report, any button code 0..255, any coordinates, either final, 7-/8-bit CSI.
func H12_sgr() {
	t, w, h := h12Screen()
	held := t.buttondn
	var rep []byte
	if vsymChoice("csi8", 2) == 1 {
		rep = append(rep, 0x9b)
	} else {
		rep = append(rep, 0x1b, '[')
	}
	rep = append(rep, '<')
	bb, code := h12Field("btn", false)
	vsymAssume(code <= 255)
	rep = append(rep, bb...)
	rep = append(rep, ';')
	xb, px := h12Field("x", true)
	rep = append(rep, xb...)
	rep = append(rep, ';')
	yb, py := h12Field("y", true)
	rep = append(rep, yb...)
	release := vsymChoice("final", 2) == 1
	if release {
		rep = append(rep, 'm')
	} else {
		rep = append(rep, 'M')
	}
	n := len(rep)
	rep = append(rep, 'Z') // a following byte that must be left alone
	buf := bytes.NewBuffer(rep)
	var evs []Event
	part, comp := t.parseSgrMouse(buf, &evs)
	vsymAssert(comp && part, "SGR report is recognised as complete")
	vsymAssert(buf.Len() == 1 && buf.Bytes()[0] == 'Z', "exactly the report's bytes are consumed")
	_ = n
	h12Check(t, evs, h12Reference(code, release, held, px, py, w, h), "SGR")
}

// H12_x11: one legacy X11 report ESC [ M Cb Cx Cy.
func H12_x11() {
	t, w, h := h12Screen()
	held := t.buttondn
	var rep []byte
	if vsymChoice("csi8", 2) == 1 {
		rep = append(rep, 0x9b)
	} else {
		rep = append(rep, 0x1b, '[')
	}
	cb, cx, cy := vsymByte("cb"), vsymByte("cx"), vsymByte("cy")
	vsymAssume(cb >= 32) // xterm adds 32 to the button code
	rep = append(rep, 'M', cb, cx, cy, 'Z')
	buf := bytes.NewBuffer(rep)
	var evs []Event
	part, comp := t.parseXtermMouse(buf, &evs)
	vsymAssert(comp && part, "legacy report is recognised as complete")
	vsymAssert(buf.Len() == 1 && buf.Bytes()[0] == 'Z', "exactly the report's bytes are consumed")
	code := int(cb) - 32
	e := h12Reference(code, false, held, int(cx)-32, int(cy)-32, w, h)
	// legacy protocol: code 3 (no motion) is the release: no buttons, press state cleared
	if code&0xC3 == 3 && code&32 == 0 {
		e.heldKnown, e.held = true, false
	}
	h12Check(t, evs, e, "X11")
}

// H12_seq: two consecutive SGR reports from an arbitrary press state (one-step induction for press/drag/release).
func H12_seq() {
	t, w, h := h12Screen()
	for i := 0; i < 2; i++ {
		held := t.buttondn
		code := int(vsymByte("code"))
		release := vsymBool("release")
		px, py := 1+int(vsymByte("px")), 1+int(vsymByte("py"))
		var evs []Event
		btn := code
		// what parseSgrMouse does after it has read the numbers is exercised by H12_sgr;
		// here the report is fed as text with fixed 3-digit fields to keep the path count small
		rep := []byte{0x1b, '[', '<'}
		rep = append(rep, h12Three(btn)...)
		rep = append(rep, ';')
		rep = append(rep, h12Three(px)...)
		rep = append(rep, ';')
		rep = append(rep, h12Three(py)...)
		if release {
			rep = append(rep, 'm')
		} else {
			rep = append(rep, 'M')
		}
		buf := bytes.NewBuffer(rep)
		_, comp := t.parseSgrMouse(buf, &evs)
		vsymAssert(comp, "report complete")
		h12Check(t, evs, h12Reference(code, release, held, px, py, w, h), "SGR sequence")
		if release {
			vsymAssert(!t.buttondn, "a release clears the press state, so the next motion is buttonless")
		}
	}
}

// three decimal digits with leading zeros, computed without branching
// (ite chains; no division on symbolic values); v in 0..599
func h12Three(v int) []byte {
	hd := 0
	for k := 1; k <= 5; k++ {
		hd = vsymIteInt(v >= 100*k, k, hd)
	}
	rest := v
	for k := 1; k <= 5; k++ {
		rest = vsymIteInt(hd == k, v-100*k, rest)
	}
	td := 0
	for k := 1; k <= 9; k++ {
		td = vsymIteInt(rest >= 10*k, k, td)
	}
	od := rest
	for k := 1; k <= 9; k++ {
		od = vsymIteInt(td == k, rest-10*k, od)
	}
	return []byte{byte('0' + hd), byte('0' + td), byte('0' + od)}
}
