//go:build verif && !js

package tcell

import (
	"bytes"
	"errors"
	"github.com/gdamore/tcell/v2/terminfo"
	"unicode/utf8"

	gencoding "github.com/gdamore/encoding"
	"golang.org/x/text/transform"
)

// C17 — legacy charsets: a cell is written as the charset's encoding of its rune
// if representable, else the terminal's ACS glyph, else the registered fallback,
// else '?', always occupying the cell's width; CanDisplay agrees.

// h17Enc: a nondeterministic encoder obeying the transform.Transformer contract
// (deterministic per call index): ranges over every encoder behaviour at once.
type h17Enc struct {
	calls int
	n     [2]int
	fail  [2]bool
	out   [2][4]byte
}

func (e *h17Enc) Reset() {}

func (e *h17Enc) Transform(dst, src []byte, atEOF bool) (int, int, error) {
	k := e.calls
	if k > 1 {
		k = 1
	}
	e.calls++
	if len(dst) < e.n[k] {
		// the Transformer contract: a destination that is too small is reported, never overrun
		return 0, 0, transform.ErrShortDst
	}
	for i := 0; i < e.n[k]; i++ {
		dst[i] = e.out[k][i]
	}
	var err error
	if e.fail[k] {
		err = errors.New("unrepresentable")
	}
	return e.n[k], len(src), err
}

func h17Stub() *h17Enc {
	e := &h17Enc{}
	for k := 0; k < 2; k++ {
		e.n[k] = vsymChoice("enc.n", 5) // 0..4 output bytes (legacy encodings can be longer than UTF-8)
		e.fail[k] = vsymBool("enc.fail")
		for i := 0; i < 4; i++ {
			e.out[k][i] = vsymByte("enc.b")
		}
	}
	return e
}

func (e *h17Enc) encodes(k int) bool {
	return vsymAnd(!e.fail[k], vsymAnd(e.n[k] > 0, e.out[k][0] != 0x1a))
}

// H17_chain: the decision chain of encodeRune/drawCell for every encoder behaviour.
func H17_chain() {
	t := hNewTScreen("vt220")
	enc := h17Stub()
	t.encoder = enc
	t.charset = "X-STUB"
	t.tty = newHTty(3, 1)
	t.cells.Resize(3, 1)
	t.w, t.h = 3, 1
	t.acs = map[rune]string{}
	t.fallback = map[rune]string{}
	r := vsymRune("r")
	wide := vsymChoice("wide", 2) == 1
	if wide {
		vsymAssume(vsymAnd(r >= 0x4e00, r <= 0x9fff))
	} else {
		vsymAssume(vsymAnd(r >= 0xa0, r <= 0x2ff)) // Latin-1 supplement .. IPA: narrow, printable (checked below)
	}
	hasAcs, hasFb := vsymChoice("acs", 2) == 1, vsymChoice("fallback", 2) == 1
	if hasAcs {
		t.acs[r] = "<A>"
	}
	if hasFb {
		t.RegisterRuneFallback(r, "fb")
	}
	var comb []rune
	hasComb := vsymChoice("comb", 2) == 1
	if hasComb {
		comb = []rune{0x0301}
	}
	t.cells.SetContent(0, 0, r, comb, StyleDefault)
	shown, _, _, width := t.cells.GetContent(0, 0)
	vsymAssume(shown == r) // not blanked as zero-width
	if wide {
		vsymAssume(width == 2)
	} else {
		vsymAssume(width == 1)
	}
	// CanDisplay before drawing (it uses the encoder once)
	save := *enc
	cdNo := t.CanDisplay(r, false)
	*enc = save
	cdYes := t.CanDisplay(r, true)
	*enc = save
	vsymAssert(cdNo == vsymOr(enc.encodes(0), hasAcs), "CanDisplay(r,false) is true exactly when the rune is shown as itself or as an ACS glyph")
	vsymAssert(cdYes == vsymOr(vsymOr(enc.encodes(0), hasAcs), hasFb), "CanDisplay(r,true) also accepts a registered fallback")

	t.buffering = true
	t.buf.Reset()
	t.cx, t.cy = 0, 0
	t.style, t.curstyle = StyleDefault, StyleDefault
	t.cells.SetDirty(0, 0, true)
	t.drawCell(0, 0)
	out := string(t.buf.Bytes())

	var want string
	switch {
	case enc.encodes(0):
		want = string(enc.out[0][:enc.n[0]])
	case hasAcs:
		want = "<A>"
	case hasFb:
		want = "fb"
	default:
		want = "?"
	}
	if hasComb && enc.encodes(1) {
		want += string(enc.out[1][:enc.n[1]]) // combining runes that do not encode are elided
	}
	if wide && want == "?" {
		want = "? " // always occupying the cell's width
	}
	vsymAssert(out == want, "cell bytes follow the chain: charset encoding, else ACS glyph, else registered fallback, else '?' (padded to the cell's width)")

	// unregistering takes effect at the next draw
	if hasFb && !hasAcs {
		t.UnregisterRuneFallback(r)
		*enc = save
		t.buf.Reset()
		t.cx, t.cy = 0, 0
		t.curstyle = StyleDefault
		t.cells.SetDirty(0, 0, true)
		t.drawCell(0, 0)
		if !enc.encodes(0) {
			got := string(t.buf.Bytes())
			vsymAssert(got == "?" || got == "? " || (hasComb && len(got) > 1), "UnregisterRuneFallback takes effect at the next draw")
		}
	}
}

// H17_real: the real ISO8859-1 and US-ASCII encoders on every BMP rune.
func H17_real() {
	t := hNewTScreen("vt220")
	ascii := vsymChoice("charset", 2) == 1
	if ascii {
		t.encoder = gencoding.ASCII.NewEncoder()
	} else {
		t.encoder = gencoding.ISO8859_1.NewEncoder()
	}
	t.tty = newHTty(3, 1)
	t.cells.Resize(3, 1)
	t.w, t.h = 3, 1
	t.acs = map[rune]string{}
	t.fallback = map[rune]string{}
	r := vsymRune("r")
	vsymAssume(vsymAnd(r >= 0x20, r <= 0xffff))
	vsymAssume(vsymOr(r < 0xd800, r > 0xdfff))
	t.cells.SetContent(0, 0, r, nil, StyleDefault)
	mainc, _, _, width := t.cells.GetContent(0, 0)
	t.buffering = true
	t.buf.Reset()
	t.cx, t.cy = 0, 0
	t.style, t.curstyle = StyleDefault, StyleDefault
	t.cells.SetDirty(0, 0, true)
	t.drawCell(0, 0)
	out := t.buf.Bytes()
	representable := mainc < 0x80
	if !ascii {
		representable = vsymOr(mainc < 0x80, vsymAnd(mainc >= 0xa0, mainc <= 0xff))
	}
	if representable {
		vsymAssert(len(out) == 1 && rune(out[0]) == mainc, "a representable rune is written as its charset byte")
	} else if width == 2 {
		vsymAssert(string(out) == "? ", "an unrepresentable wide rune is written as '?' padded to two columns")
	} else {
		vsymAssert(string(out) == "?", "an unrepresentable rune with no ACS glyph or fallback is written as '?'")
	}
	for _, b := range out {
		vsymAssert(b != 0x1a && (b < 0x80 || !ascii), "never an encoder substitution byte or raw UTF-8")
	}
	vsymAssert(t.CanDisplay(r, true) == representable || mainc != r, "CanDisplay agrees with what is drawn")
}

// h17StripPad: terminfo(5) padding ($<digits[.digits][*][/]>) removed; anything else verbatim.
func h17StripPad(s string) string {
	var out []byte
	for i := 0; i < len(s); i++ {
		if s[i] == '$' && i+1 < len(s) && s[i+1] == '<' {
			j := i + 2
			for j < len(s) && s[j] != '>' {
				j++
			}
			if j < len(s) {
				i = j
				continue
			}
		}
		out = append(out, s[i])
	}
	return string(out)
}

// H17_acs: on every built-in description with an alternate character set, in a locale
// that cannot encode the line-drawing runes, each ACS rune is written as exactly
// enter-ACS, the glyph byte, exit-ACS - with the terminfo padding of those strings
// removed, never as literal "$<2>" text - and CanDisplay reports it displayable.
func H17_acs() {
	ents := terminfo.VerifEntries()
	ti := ents[vsymChoice("term", len(ents))]
	vsymNote("term", ti.Name)
	t := hNewTScreen(ti.Name)
	if ti.AltChars == "" || ti.EnterAcs == "" {
		vsymAssert(ti.AltChars != "" || len(t.acs) == 0, "a description without alternate characters yields no ACS glyphs: "+ti.Name)
		return
	}
	t.charset = "US-ASCII"
	t.encoder = gencoding.ASCII.NewEncoder()
	t.tty = newHTty(3, 1)
	t.cells.Resize(3, 1)
	t.w, t.h = 3, 1
	t.fallback = map[rune]string{}
	acs := ti.AltChars
	for len(acs) > 2 {
		src, glyph := acs[0], acs[1]
		acs = acs[2:]
		r, ok := vtACSNames[src]
		if !ok || r < 0x80 {
			continue
		}
		t.cells.SetContent(0, 0, r, nil, StyleDefault)
		t.buffering = true
		t.buf.Reset()
		t.cx, t.cy = 0, 0
		t.style, t.curstyle = StyleDefault, StyleDefault
		t.cells.SetDirty(0, 0, true)
		t.drawCell(0, 0)
		out := string(t.buf.Bytes())
		want := h17StripPad(ti.EnterAcs) + string([]byte{glyph}) + h17StripPad(ti.ExitAcs)
		vsymAssert(out == want, "an ACS rune is written as enter-ACS, glyph, exit-ACS without terminfo padding residue: "+ti.Name)
		vsymAssert(t.CanDisplay(r, false), "CanDisplay is true for a rune drawn as an ACS glyph: "+ti.Name)
	}
}

// H17_mb: the real double-byte legacy encoders (EUC-KR, EUC-JP, Shift_JIS, GBK, Big5) on
// every rune of a 256-rune window of the BMP (quick: six representative windows; thorough:
// all 248 windows outside the surrogates): the cell is written as exactly what the encoder gives for the rune, or - when
// the charset cannot represent it - as '?' padded to the cell's width; never as raw UTF-8
// or an encoder substitution byte.  CanDisplay agrees.  (The encoder applied directly to the
// rune is the reference; the x/text tables themselves are not judged.)
func H17_mb() {
	cs := h11MB[vsymChoice("charset", len(h11MB))]
	vsymNote("charset", cs.name)
	var base int
	if vsymParam("allwins", 0) == 1 {
		w := vsymChoice("runewin", 248)
		if w >= 0xd8 {
			w += 8 // no window of surrogates
		}
		base = w * 256
	} else {
		base = []int{0x0000, 0x0400, 0x3000, 0x4e00, 0xac00, 0xff00}[vsymChoice("runewin", 6)]
	}
	t := hNewTScreen("vt220")
	t.charset = cs.name
	t.encoder = cs.enc.NewEncoder()
	t.tty = newHTty(3, 1)
	t.cells.Resize(3, 1)
	t.w, t.h = 3, 1
	t.acs = map[rune]string{}
	t.fallback = map[rune]string{}
	r := vsymRune("r")
	vsymAssume(vsymAnd(r >= rune(base), r <= rune(base+255)))
	vsymAssume(vsymAnd(r >= 0xa0, vsymOr(r < 0xd800, r > 0xdfff)))
	t.cells.SetContent(0, 0, r, nil, StyleDefault)
	shown, _, _, width := t.cells.GetContent(0, 0)
	vsymAssume(shown == r) // zero-width and control runes are blanked (C09)
	// reference: the encoder applied to the rune directly
	src := make([]byte, 4)
	n := utf8.EncodeRune(src, r)
	dst := make([]byte, 8)
	m, _, err := cs.enc.NewEncoder().Transform(dst, src[:n], true)
	representable := err == nil && m > 0 && dst[0] != 0x1a
	t.buffering = true
	t.buf.Reset()
	t.cx, t.cy = 0, 0
	t.style, t.curstyle = StyleDefault, StyleDefault
	t.cells.SetDirty(0, 0, true)
	t.drawCell(0, 0)
	out := t.buf.Bytes()
	if representable {
		vsymAssert(bytes.Equal(out, dst[:m]), "a representable rune is written as its charset encoding")
	} else if width == 2 {
		vsymAssert(string(out) == "? ", "an unrepresentable wide rune is written as '?' padded to two columns")
	} else {
		vsymAssert(string(out) == "?", "an unrepresentable rune with no ACS glyph or fallback is written as '?'")
	}
	for _, b := range out {
		vsymAssert(b != 0x1a, "never an encoder substitution byte")
	}
	vsymAssert(t.CanDisplay(r, true) == representable, "CanDisplay agrees with what is drawn")
}
