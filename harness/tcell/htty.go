//go:build verif && !js

package tcell

import (
	"sync"
	"io"
	"os"

	runewidth "github.com/mattn/go-runewidth"

	"github.com/gdamore/tcell/v2/terminfo"
)

// hTty — a fake Tty: feeds every Write to the reference terminal, records the
// order of the calls the Tty contract constrains, reports a fixed window size.
type hTty struct {
	vt         *refVT
	w, h       int
	cb         func()
	log        []string
	inCh       chan []byte
	wake       chan struct{}
	drained    bool
	running    bool
	closed     bool
	badOrder   []string
	writes     int
	lateWrites int
	// scrMu, when set by the harness, is the screen's mutex: a write that arrives while
	// nobody holds it can interleave with another goroutine's output (C10: each Show
	// reaches the terminal as one contiguous block)
	scrMu          *sync.Mutex
	unlockedWrites int
}

func newHTty(w, h int) *hTty {
	t := &hTty{w: w, h: h, inCh: make(chan []byte, 16), wake: make(chan struct{})}
	t.vt = newRefVT(w, h, runewidth.RuneWidth)
	return t
}

func (t *hTty) violation(s string) {
	if len(t.badOrder) < 8 {
		t.badOrder = append(t.badOrder, s)
	}
}

func (t *hTty) Start() error {
	t.log = append(t.log, "Start")
	if t.closed {
		t.violation("Start after Close")
	}
	t.running, t.drained = true, false
	t.wake = make(chan struct{})
	return nil
}

func (t *hTty) Stop() error {
	t.log = append(t.log, "Stop")
	if !t.drained {
		t.violation("Stop without a preceding Drain")
	}
	if t.cb != nil {
		t.violation("Stop with the resize callback still registered")
	}
	t.running = false
	return nil
}

func (t *hTty) Drain() error {
	t.log = append(t.log, "Drain")
	if !t.drained {
		close(t.wake)
	}
	t.drained = true
	return nil
}

func (t *hTty) NotifyResize(cb func()) {
	if cb == nil {
		t.log = append(t.log, "NotifyResize(nil)")
	} else {
		t.log = append(t.log, "NotifyResize(cb)")
	}
	t.cb = cb
}

func (t *hTty) WindowSize() (WindowSize, error) {
	return WindowSize{Width: t.w, Height: t.h}, nil
}

func (t *hTty) Read(p []byte) (int, error) {
	if !t.running {
		t.violation("Read while stopped")
	}
	select {
	case b, ok := <-t.inCh:
		if !ok {
			return 0, io.EOF
		}
		return copy(p, b), nil
	case <-t.wake:
		return 0, nil
	}
}

func (t *hTty) Write(p []byte) (int, error) {
	t.writes++
	if t.scrMu != nil && t.scrMu.TryLock() {
		t.unlockedWrites++
		t.scrMu.Unlock()
	}
	if !t.running {
		// permitted when the application itself calls the screen while suspended
		// ("no I/O after Stop unless the application calls the screen again"); the
		// library's own goroutines are joined before Stop, which the engine's
		// blocked/finished thread states show
		t.lateWrites++
	}
	if t.closed {
		t.violation("Write after Close")
	}
	t.vt.Feed(p)
	return len(p), nil
}

func (t *hTty) Close() error {
	t.log = append(t.log, "Close")
	if t.running {
		t.violation("Close before Stop")
	}
	t.closed = true
	return nil
}

// hScreen builds and initialises a real terminfo screen on a fake tty.
// truecolor: 0 = as the entry says, 1 = COLORTERM=truecolor.
func hScreen(term string, w, h int, truecolor bool) (*tScreen, *hTty, Screen) {
	if truecolor {
		vsymSetenv("COLORTERM", "truecolor")
	}
	ti, err := terminfo.LookupTerminfo(term)
	if err != nil {
		vsymCutPath("terminal not in the database: " + term)
	}
	tty := newHTty(w, h)
	tty.vt.acsMap = hAcsMap(ti)
	s, e := NewTerminfoScreenFromTtyTerminfo(tty, ti)
	if e != nil {
		vsymCutPath("constructor failed")
	}
	if e := s.Init(); e != nil {
		vsymCutPath("Init failed")
	}
	t := s.(*baseScreen).screenImpl.(*tScreen)
	return t, tty, s
}

// hAcsMap: which byte stands for which glyph while the alternate character set is on, per the entry's acsc.
func hAcsMap(ti *terminfo.Terminfo) map[byte]rune {
	m := map[byte]rune{}
	s := ti.AltChars
	for len(s) >= 2 {
		if r, ok := vtACSNames[s[0]]; ok {
			m[s[1]] = r
		}
		s = s[2:]
	}
	return m
}

// hEnv reads the (stubbed) environment the way the library does.
func hEnv(k string) string { return os.Getenv(k) }
