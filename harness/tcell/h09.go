//go:build verif && !js

package tcell

import (
	"bytes"
	"github.com/gdamore/tcell/v2/terminfo"
	"strings"
	"unicode/utf8"

	gencoding "github.com/gdamore/encoding"
	"golang.org/x/text/encoding/charmap"
	"golang.org/x/text/transform"
)

// C09 — cell content cannot inject control bytes: every int32 value as the
// primary rune, through SetContent and Fill, in the first and the last column,
// under four encoders; the bytes drawCell writes for the cell are inspected.

func h09Encoder(k int) (transform.Transformer, string) {
	switch k {
	case 0:
		return gencoding.UTF8.NewEncoder(), "UTF-8"
	case 1:
		return gencoding.ISO8859_1.NewEncoder(), "ISO8859-1"
	case 2:
		return gencoding.ASCII.NewEncoder(), "US-ASCII"
	}
	return charmap.KOI8R.NewEncoder(), "KOI8-R"
}

// h09Control: code points that must never be shown as themselves: C0, DEL, C1, invalid values.
func h09Control(r rune) bool {
	ctl := vsymOr(r < 0x20, vsymOr(r == 0x7f, vsymAnd(r >= 0x80, r < 0xa0)))
	invalid := vsymOr(r > 0x10ffff, vsymAnd(r >= 0xd800, r <= 0xdfff))
	return vsymOr(ctl, invalid)
}

// h09FormatA: zero-width and bidi embedding/override controls
func h09FormatA(r rune) bool {
	return vsymOr(vsymAnd(r >= 0x200b, r <= 0x200f), vsymOr(vsymAnd(r >= 0x202a, r <= 0x202e),
		vsymOr(vsymAnd(r >= 0x206a, r <= 0x206f), r == 0xfeff)))
}

// h09FormatB: invisible operators, bidi isolates, Arabic letter mark
func h09FormatB(r rune) bool {
	return vsymOr(vsymAnd(r >= 0x2060, r <= 0x2064), vsymOr(vsymAnd(r >= 0x2066, r <= 0x2069), r == 0x061c))
}

func H09_rune() {
	enc, name := h09Encoder(vsymChoice("enc", 4))
	t := hNewTScreen("xterm-256color")
	t.charset = name
	t.encoder = enc
	t.acs = map[rune]string{} // ACS glyphs are bracketed by escape sequences by design; the chain is C17's subject
	t.tty = newHTty(2, 1)
	t.cells.Resize(2, 1)
	t.w, t.h = 2, 1
	x := vsymChoice("col", 2)
	r := vsymRune("r")
	// optionally one combining mark (the property limits combining lists to zero-width
	// non-control marks: any of U+0300..U+036F)
	var comb []rune
	hasComb := vsymChoice("comb", 2) == 1
	if hasComb {
		c := vsymRune("c")
		vsymAssume(vsymAnd(c >= 0x300, c <= 0x36f))
		comb = []rune{c}
	}
	if hasComb {
		t.cells.SetContent(x, 0, r, comb, StyleDefault)
	} else if vsymChoice("via", 2) == 0 {
		t.cells.SetContent(x, 0, r, nil, StyleDefault)
	} else {
		t.cells.Fill(r, StyleDefault)
	}
	// draw just this cell into the buffer: position and style already "current", so only the payload is written
	t.buffering = true
	t.buf.Reset()
	t.cx, t.cy = x, 0
	t.style = StyleDefault
	t.curstyle = StyleDefault
	t.cells.SetDirty(x, 0, true)
	width := t.drawCell(x, 0)
	out := append([]byte{}, t.buf.Bytes()...)
	h09Judge(name, r, hasComb, x, width, out, "")
	// the same cell painted again without a change of content (Sync, a resize, Invalidate):
	// the cell was marked clean in between, and must come out the same
	t.buf.Reset()
	t.cx, t.cy = x, 0
	t.curstyle = StyleDefault
	t.cells.SetDirty(x, 0, true)
	width2 := t.drawCell(x, 0)
	out2 := t.buf.Bytes()
	h09Judge(name, r, hasComb, x, width2, out2, " (repainted)")
	vsymAssert(width2 == width && bytes.Equal(out, out2), "a repaint of an unchanged cell writes the same bytes")
}

func h09Judge(name string, r rune, hasComb bool, x, width int, out []byte, tag string) {
	vsymAssert(len(out) >= 1, "a drawn cell writes at least one byte"+tag)
	vsymAssert(width == 1 || width == 2, "a drawn cell occupies one or two columns"+tag)
	for i := range out {
		b := out[i]
		vsymAssert(vsymAnd(b >= 0x20, b != 0x7f), "no C0 control or DEL byte in a cell's payload"+tag)
		if name != "UTF-8" && name != "KOI8-R" {
			vsymAssert(!vsymAnd(b >= 0x80, b < 0xa0), "no C1 control byte in a cell's payload (8-bit locale)"+tag)
		}
	}
	if name == "UTF-8" {
		// payload is valid UTF-8 holding no control or dangerous format character
		for i := 0; i < len(out); {
			c, sz := utf8.DecodeRune(out[i:])
			vsymAssert(!(c == utf8.RuneError && sz <= 1), "payload is valid UTF-8"+tag)
			vsymAssert(!h09Control(c) || c == utf8.RuneError, "no control or invalid character reaches the terminal"+tag)
			vsymAssert(!h09FormatA(c), "no zero-width or bidi embedding/override control reaches the terminal (U+200B-200F, 202A-202E, 206A-206F, FEFF)"+tag)
			vsymAssert(!h09FormatB(c), "no invisible operator, bidi isolate or Arabic letter mark reaches the terminal (U+2060-2064, 2066-2069, 061C)"+tag)
			i += sz
		}
	}
	if vsymOr(h09Control(r), h09FormatA(r)) {
		vsymAssert(len(out) >= 1 && out[0] == ' ', "a control, invalid or zero-width primary rune is shown as a blank"+tag)
		if !hasComb {
			vsymAssert(len(out) == 1, "a blanked cell is exactly one blank"+tag)
		}
	}
	if x == 1 && width == 2 {
		vsymAssert(false, "a cell in the last column never claims two columns")
	}
}

// H09_caps: on every built-in ECMA-48-family description (cursor addressing starts with
// CSI), every output capability the screen uses, expanded with TParm and written with
// TPuts as the screen does, parses as complete control sequences and prints nothing:
// no padding residue ($<..>), no parameter-language residue, no stray text.
func H09_caps() {
	ents := terminfo.VerifEntries()
	ti := ents[vsymChoice("term", len(ents))]
	vsymNote("term", ti.Name)
	if !strings.HasPrefix(ti.SetCursor, "\x1b[") {
		vsymAssert(ti.Name != "xterm-256color", "the ECMA-48 family includes xterm")
		return
	}
	t := hNewTScreen(ti.Name)
	tty := newHTty(8, 4)
	t.tty = tty
	tty.vt.acsMap = map[byte]rune{}
	plain := []string{ti.Clear, ti.EnterCA, ti.ExitCA, ti.ShowCursor, ti.HideCursor, ti.AttrOff, ti.Underline, ti.Bold,
		ti.Blink, ti.Reverse, ti.Dim, ti.Italic, ti.EnterKeypad, ti.ExitKeypad, ti.EnableAutoMargin, ti.DisableAutoMargin,
		ti.StrikeThrough, ti.ResetFgBg, ti.EnableAcs, ti.EnterAcs, ti.ExitAcs, ti.CursorBack1, ti.CursorUp1, ti.Bell,
		ti.DoubleUnderline, ti.CurlyUnderline, ti.DottedUnderline, ti.DashedUnderline, ti.UnderlineColorReset, ti.CursorDefault,
		ti.CursorBlinkingBlock, ti.CursorSteadyBlock, ti.CursorBlinkingUnderline, ti.CursorSteadyUnderline, ti.CursorBlinkingBar,
		ti.CursorSteadyBar, ti.CursorColorReset, ti.EnterUrl, ti.ExitUrl}
	for _, c := range plain {
		if len(c) == 1 && c[0] < 0x20 {
			continue // a bare C0 control (sun clears with FF) is that terminal's business
		}
		if c != "" && !strings.Contains(c, "%p") {
			t.TPuts(c)
		}
	}
	col := []int{0, 7, 9, 200}[vsymChoice("colour", 4)]
	if col >= ti.Colors {
		col = 0 // the screen never sends a colour the terminal does not have (C15)
	}
	for _, c := range []string{ti.SetFg, ti.SetBg} {
		if c != "" {
			t.TPuts(ti.TParm(c, col))
		}
	}
	if ti.SetFgBg != "" {
		t.TPuts(ti.TParm(ti.SetFgBg, col, 7-col%8))
	}
	for _, c := range []string{ti.SetFgRGB, ti.SetBgRGB} {
		if c != "" {
			t.TPuts(ti.TParm(c, col, 255-col, 17))
		}
	}
	if ti.SetFgBgRGB != "" {
		t.TPuts(ti.TParm(ti.SetFgBgRGB, col, 255-col, 17, 1, 2, 3))
	}
	t.TPuts(ti.TGoto(3, 2))
	vt := tty.vt
	if len(vt.bad) > 0 {
		vsymNote("malformed", vt.bad[0])
	}
	vsymAssert(len(vt.bad) == 0, "every capability string parses as complete control sequences: "+ti.Name)
	clean := true
	for i := range vt.cells {
		if vt.cells[i].r != ' ' {
			clean = false
		}
	}
	vsymAssert(clean, "no capability string prints text (padding or parameter residue): "+ti.Name)
}
