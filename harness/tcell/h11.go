//go:build verif && !js

package tcell

import (
	"bytes"
	"unicode/utf8"

	"golang.org/x/text/encoding/korean"
)

// C11 — typed and pasted text is delivered rune for rune, in order.

// h11Decode: s is a concatenation of valid UTF-8 scalar values (reference: unicode/utf8).
func h11Decode(s []byte) ([]rune, bool) {
	var out []rune
	for i := 0; i < len(s); {
		r, sz := utf8.DecodeRune(s[i:])
		if r == utf8.RuneError && sz <= 1 {
			return nil, false
		}
		out = append(out, r)
		i += sz
	}
	return out, true
}

func h11Feed(t *tScreen, s []byte, k int) ([]Event, int) {
	buf := &bytes.Buffer{}
	buf.Write(s[:k])
	evs := t.collectEventsFromInput(buf, false)
	buf.Write(s[k:])
	evs = append(evs, t.collectEventsFromInput(buf, false)...)
	return evs, buf.Len()
}

// H11_utf8: any valid UTF-8 text of printable scalar values, split anywhere
// (also inside a character), arrives as one rune key event per character.
func H11_utf8() {
	n := vsymParam("n", 4)
	s := vsymBytes("s", n)
	want, ok := h11Decode(s)
	vsymAssume(ok)
	for _, r := range want {
		vsymAssume(vsymAnd(r >= 0x20, r != 0x7f))
	}
	k := vsymChoice("k", n+1)
	t := hNewTScreen("xterm-256color")
	evs, left := h11Feed(t, s, k)
	vsymAssert(left == 0, "no byte of valid text stays buffered")
	hasRepl := false
	for _, r := range want {
		if r == 0xFFFD {
			hasRepl = true
		}
	}
	if hasRepl {
		// U+FFFD REPLACEMENT CHARACTER is itself a valid scalar value that can be typed or pasted
		vsymAssert(len(evs) == len(want), "one event per character [text containing U+FFFD]")
	} else {
		vsymAssert(len(evs) == len(want), "one event per character")
	}
	if len(evs) != len(want) {
		return
	}
	for i := range want {
		ek, isKey := evs[i].(*EventKey)
		vsymAssert(isKey, "text arrives as key events")
		if isKey {
			vsymAssert(vsymAnd(ek.Key() == KeyRune, vsymAnd(ek.Rune() == want[i], ek.Modifiers() == ModNone)), "event i carries character i, unmodified")
		}
	}
}

// H11_paste: bracketed paste — one paste-start, the text rune for rune, one paste-end; focus reports.
func H11_paste() {
	n := vsymParam("n", 2)
	term := []string{"xterm-256color", "linux", "vt220"}[vsymChoice("term", 3)]
	t := hNewTScreen(term)
	text := vsymBytes("s", n)
	want, ok := h11Decode(text)
	vsymAssume(ok)
	for _, r := range want {
		vsymAssume(vsymAnd(r >= 0x20, r != 0x7f))
	}
	if t.enablePaste == "" {
		// no paste support on this description: nothing is claimed
		vsymAssert(term == "vt220", "only the vt220-class description lacks bracketed paste here")
		return
	}
	var s []byte
	s = append(s, "\x1b[200~"...)
	s = append(s, text...)
	s = append(s, "\x1b[201~"...)
	focus := vsymChoice("focus", 3)
	if focus == 1 {
		s = append(s, "\x1b[I"...)
	} else if focus == 2 {
		s = append(s, "\x1b[O"...)
	}
	k := vsymChoice("k", len(s)+1)
	evs, left := h11Feed(t, s, k)
	vsymAssert(left == 0, "nothing stays buffered after a complete paste")
	exp := len(want) + 2
	if focus != 0 {
		exp++
	}
	vsymAssert(len(evs) == exp, "paste-start, one event per character, paste-end (and the focus report)")
	if len(evs) != exp {
		return
	}
	p0, ok0 := evs[0].(*EventPaste)
	vsymAssert(ok0 && p0.Start(), "first event is paste-start")
	for i := range want {
		ek, isKey := evs[1+i].(*EventKey)
		vsymAssert(isKey && ek.Key() == KeyRune && ek.Rune() == want[i], "pasted character i arrives as rune key event i")
	}
	p1, ok1 := evs[1+len(want)].(*EventPaste)
	vsymAssert(ok1 && p1.End(), "paste-end follows the text")
	if focus != 0 {
		f, okf := evs[exp-1].(*EventFocus)
		vsymAssert(okf && f.Focused == (focus == 1), "focus report arrives as a focus event with the right value")
	}
}

// H11_legacy: a registered multi-byte legacy charset (EUC-KR, the real x/text
// decoder executed symbolically): every two-byte Hangul syllable, followed by an
// ASCII letter, split anywhere, arrives as the syllable then the letter.
func H11_legacy() {
	t := hNewTScreen("xterm-256color")
	t.charset = "EUC-KR"
	t.decoder = korean.EUCKR.NewDecoder()
	t.encoder = korean.EUCKR.NewEncoder()
	lead, trail := vsymByte("lead"), vsymByte("trail")
	vsymAssume(vsymAnd(vsymAnd(lead >= 0xb0, lead <= 0xc8), vsymAnd(trail >= 0xa1, trail <= 0xfe))) // KS X 1001 Hangul block
	s := []byte{lead, trail, 'a'}
	// reference: the same decoder on the whole character
	ref := korean.EUCKR.NewDecoder()
	dst := make([]byte, 8)
	n, _, err := ref.Transform(dst, s[:2], true)
	vsymAssume(err == nil && n > 0)
	want, _ := utf8.DecodeRune(dst[:n])
	vsymAssume(want != utf8.RuneError)
	k := vsymChoice("k", 4)
	evs, left := h11Feed(t, s, k)
	vsymAssert(left == 0, "legacy text: nothing stays buffered")
	vsymAssert(len(evs) == 2, "legacy text: one event per character (a two-byte character is one character)")
	if len(evs) == 2 {
		e0, ok0 := evs[0].(*EventKey)
		e1, ok1 := evs[1].(*EventKey)
		vsymAssert(ok0 && e0.Key() == KeyRune && e0.Rune() == want, "legacy text: the two-byte character arrives as its rune")
		vsymAssert(ok1 && e1.Key() == KeyRune && e1.Rune() == 'a', "legacy text: the following letter arrives after it")
	}
}
