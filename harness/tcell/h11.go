//go:build verif && !js

package tcell

import (
	"bytes"
	"unicode/utf8"

	gencoding "github.com/gdamore/encoding"
	xenc "golang.org/x/text/encoding"
	"golang.org/x/text/encoding/charmap"
	"golang.org/x/text/encoding/japanese"
	"golang.org/x/text/encoding/korean"
	"golang.org/x/text/encoding/simplifiedchinese"
	"golang.org/x/text/encoding/traditionalchinese"
)

// C11 — typed and pasted text is delivered rune for rune, in order.

// h11Decode: s is a concatenation of valid UTF-8 scalar values (reference: unicode/utf8).
func h11Decode(s []byte) ([]rune, bool) {
	var out []rune
	for i := 0; i < len(s); {
		r, sz := utf8.DecodeRune(s[i:])
		if r == utf8.RuneError && sz <= 1 {
			return nil, false
		}
		out = append(out, r)
		i += sz
	}
	return out, true
}

func h11Feed(t *tScreen, s []byte, k int) ([]Event, int) {
	buf := &bytes.Buffer{}
	buf.Write(s[:k])
	evs := t.collectEventsFromInput(buf, false)
	buf.Write(s[k:])
	evs = append(evs, t.collectEventsFromInput(buf, false)...)
	return evs, buf.Len()
}

// H11_utf8: any valid UTF-8 text of printable scalar values, split anywhere
// (also inside a character), arrives as one rune key event per character.
func H11_utf8() {
	n := vsymParam("n", 4)
	s := vsymBytes("s", n)
	want, ok := h11Decode(s)
	vsymAssume(ok)
	for _, r := range want {
		vsymAssume(vsymAnd(r >= 0x20, r != 0x7f))
	}
	k := vsymChoice("k", n+1)
	t := hNewTScreen("xterm-256color")
	evs, left := h11Feed(t, s, k)
	vsymAssert(left == 0, "no byte of valid text stays buffered")
	hasRepl := false
	for _, r := range want {
		if r == 0xFFFD {
			hasRepl = true
		}
	}
	if hasRepl {
		// U+FFFD REPLACEMENT CHARACTER is itself a valid scalar value that can be typed or pasted
		vsymAssert(len(evs) == len(want), "one event per character [text containing U+FFFD]")
	} else {
		vsymAssert(len(evs) == len(want), "one event per character")
	}
	if len(evs) != len(want) {
		return
	}
	for i := range want {
		ek, isKey := evs[i].(*EventKey)
		vsymAssert(isKey, "text arrives as key events")
		if isKey {
			vsymAssert(vsymAnd(ek.Key() == KeyRune, vsymAnd(ek.Rune() == want[i], ek.Modifiers() == ModNone)), "event i carries character i, unmodified")
		}
	}
}

// H11_paste: bracketed paste — one paste-start, the text rune for rune, one paste-end; focus reports.
func H11_paste() {
	n := vsymParam("n", 2)
	term := []string{"xterm-256color", "linux", "vt220"}[vsymChoice("term", 3)]
	t := hNewTScreen(term)
	text := vsymBytes("s", n)
	want, ok := h11Decode(text)
	vsymAssume(ok)
	for _, r := range want {
		vsymAssume(vsymAnd(r >= 0x20, r != 0x7f))
	}
	if t.enablePaste == "" {
		// no paste support on this description: nothing is claimed
		vsymAssert(term == "vt220", "only the vt220-class description lacks bracketed paste here")
		return
	}
	var s []byte
	s = append(s, "\x1b[200~"...)
	s = append(s, text...)
	s = append(s, "\x1b[201~"...)
	focus := vsymChoice("focus", 3)
	if focus == 1 {
		s = append(s, "\x1b[I"...)
	} else if focus == 2 {
		s = append(s, "\x1b[O"...)
	}
	k := vsymChoice("k", len(s)+1)
	evs, left := h11Feed(t, s, k)
	vsymAssert(left == 0, "nothing stays buffered after a complete paste")
	exp := len(want) + 2
	if focus != 0 {
		exp++
	}
	hasRepl := false
	for _, r := range want {
		if r == 0xFFFD {
			hasRepl = true
		}
	}
	if hasRepl {
		// the same recorded finding as in H11_utf8: a validly encoded U+FFFD is dropped
		vsymAssert(len(evs) == exp, "paste-start, one event per character, paste-end [pasted text containing U+FFFD]")
	} else {
		vsymAssert(len(evs) == exp, "paste-start, one event per character, paste-end (and the focus report)")
	}
	if len(evs) != exp {
		return
	}
	p0, ok0 := evs[0].(*EventPaste)
	vsymAssert(ok0 && p0.Start(), "first event is paste-start")
	for i := range want {
		ek, isKey := evs[1+i].(*EventKey)
		vsymAssert(isKey && ek.Key() == KeyRune && ek.Rune() == want[i], "pasted character i arrives as rune key event i")
	}
	p1, ok1 := evs[1+len(want)].(*EventPaste)
	vsymAssert(ok1 && p1.End(), "paste-end follows the text")
	if focus != 0 {
		f, okf := evs[exp-1].(*EventFocus)
		vsymAssert(okf && f.Focused == (focus == 1), "focus report arrives as a focus event with the right value")
	}
}

// h11SB: the single-byte charsets the encoding package registers.
var h11SB = []struct {
	name string
	enc  xenc.Encoding
}{
	{"ISO8859-1", gencoding.ISO8859_1}, {"ISO8859-9", gencoding.ISO8859_9},
	{"ISO8859-2", charmap.ISO8859_2}, {"ISO8859-3", charmap.ISO8859_3}, {"ISO8859-4", charmap.ISO8859_4},
	{"ISO8859-5", charmap.ISO8859_5}, {"ISO8859-6", charmap.ISO8859_6}, {"ISO8859-7", charmap.ISO8859_7},
	{"ISO8859-8", charmap.ISO8859_8}, {"ISO8859-10", charmap.ISO8859_10}, {"ISO8859-13", charmap.ISO8859_13},
	{"ISO8859-14", charmap.ISO8859_14}, {"ISO8859-15", charmap.ISO8859_15}, {"ISO8859-16", charmap.ISO8859_16},
	{"KOI8-R", charmap.KOI8R}, {"KOI8-U", charmap.KOI8U},
}

// H11_single: every printable character of a single-byte legacy charset (any byte
// >= 0x80 the charset defines), between two ASCII letters, typed or pasted, split
// anywhere, arrives as its rune, in order.
func H11_single() {
	cs := h11SB[vsymChoice("charset", len(h11SB))]
	vsymNote("charset", cs.name)
	t := hNewTScreen("xterm-256color")
	t.charset = cs.name
	t.decoder = cs.enc.NewDecoder()
	t.encoder = cs.enc.NewEncoder()
	b := vsymByte("b")
	vsymAssume(b >= 0x80)
	ref := cs.enc.NewDecoder()
	dst := make([]byte, 8)
	n, nsrc, err := ref.Transform(dst, []byte{b}, true)
	vsymAssume(err == nil && n > 0 && nsrc == 1)
	want, _ := utf8.DecodeRune(dst[:n])
	// printable characters only: C1 controls (ISO 8859 0x80-0x9f) and undefined bytes are not text
	vsymAssume(vsymAnd(want != utf8.RuneError, want >= 0xa0))
	paste := vsymChoice("paste", 2) == 1
	var s []byte
	if paste {
		s = append(s, "\x1b[200~"...)
	}
	s = append(s, 'x', b, 'y')
	if paste {
		s = append(s, "\x1b[201~"...)
	}
	k := vsymChoice("k", len(s)+1)
	evs, left := h11Feed(t, s, k)
	vsymAssert(left == 0, "single-byte charset: nothing stays buffered")
	exp, off := 3, 0
	if paste {
		exp, off = 5, 1
	}
	vsymAssert(len(evs) == exp, "single-byte charset: one event per character")
	if len(evs) != exp {
		return
	}
	for i, w := range []rune{'x', want, 'y'} {
		ek, isKey := evs[off+i].(*EventKey)
		vsymAssert(isKey && ek.Key() == KeyRune && ek.Rune() == w, "single-byte charset: each character arrives as its rune, in order")
	}
	if paste {
		p0, ok0 := evs[0].(*EventPaste)
		p1, ok1 := evs[4].(*EventPaste)
		vsymAssert(ok0 && p0.Start() && ok1 && p1.End(), "single-byte charset: pasted text is bracketed by paste-start and paste-end")
	}
}

// h11MB: the stateless double-byte charsets the encoding package registers (the real
// x/text decoders are executed symbolically; their tables are narrowed to the cells
// the symbolic lead/trail bytes can select).
type h11cs struct {
	name  string
	enc   xenc.Encoding
	leads [][2]int // ranges of lead bytes that start at least one two-byte character
}

var h11MB = []h11cs{
	{"EUC-KR", korean.EUCKR, [][2]int{{0x81, 0xc8}, {0xca, 0xfd}}},
	{"EUC-JP", japanese.EUCJP, [][2]int{{0x8e, 0x8e}, {0xa1, 0xa8}, {0xad, 0xad}, {0xb0, 0xf4}, {0xf9, 0xfc}}},
	{"Shift_JIS", japanese.ShiftJIS, [][2]int{{0x81, 0x84}, {0x87, 0x9f}, {0xe0, 0xea}, {0xed, 0xee}, {0xfa, 0xfc}}},
	{"GBK", simplifiedchinese.GBK, [][2]int{{0x81, 0xfe}}},
	{"Big5", traditionalchinese.Big5, [][2]int{{0x87, 0xfe}}},
}

func (c h11cs) leadList() []int {
	var out []int
	for _, r := range c.leads {
		for v := r[0]; v <= r[1]; v++ {
			out = append(out, v)
		}
	}
	return out
}

// H11_legacy: every two-byte character of a double-byte legacy charset (lead byte in a
// window of `leadspan` values chosen by `leadwin`, any trail byte the decoder accepts),
// followed by an ASCII letter, split anywhere, arrives as the character then the letter.
func H11_legacy() {
	cs := h11MB[vsymChoice("charset", len(h11MB))]
	vsymNote("charset", cs.name)
	span := vsymParam("leadspan", 4)
	ll := cs.leadList()
	nwin := (len(ll) + span - 1) / span
	// `leadwins` windows spread evenly over the lead bytes (all of them when leadwins >= nwin)
	maxwin := vsymParam("leadwins", 64)
	w := vsymChoice("leadwin", maxwin)
	if maxwin < nwin {
		w = w * nwin / maxwin
	} else {
		w = w % nwin // (charsets with fewer windows repeat some)
	}
	t := hNewTScreen("xterm-256color")
	t.charset = cs.name
	t.decoder = cs.enc.NewDecoder()
	t.encoder = cs.enc.NewEncoder()
	lead, trail := vsymByte("lead"), vsymByte("trail")
	in := false
	for i := w * span; i < (w+1)*span && i < len(ll); i++ {
		in = vsymOr(in, int(lead) == ll[i])
	}
	vsymAssume(in)
	vsymAssume(trail >= 0x40)
	s := []byte{lead, trail, 'a'}
	// reference: the same decoder on the whole character
	ref := cs.enc.NewDecoder()
	dst := make([]byte, 8)
	n, nsrc, err := ref.Transform(dst, s[:2], true)
	vsymAssume(err == nil && n > 0 && nsrc == 2)
	want, _ := utf8.DecodeRune(dst[:n])
	vsymAssume(want != utf8.RuneError && want >= 0x80)
	k := vsymChoice("k", 4)
	evs, left := h11Feed(t, s, k)
	vsymAssert(left == 0, "legacy text: nothing stays buffered")
	vsymAssert(len(evs) == 2, "legacy text: one event per character (a two-byte character is one character)")
	if len(evs) == 2 {
		e0, ok0 := evs[0].(*EventKey)
		e1, ok1 := evs[1].(*EventKey)
		vsymAssert(ok0 && e0.Key() == KeyRune && e0.Rune() == want, "legacy text: the two-byte character arrives as its rune")
		vsymAssert(ok1 && e1.Key() == KeyRune && e1.Rune() == 'a', "legacy text: the following letter arrives after it")
	}
}

// H11_pipeline: pasted text through the whole input pipeline (tty reads, reader goroutine,
// chunk queue, main loop, event queue): a bracketed paste of four symbolic printable
// characters arrives in three reads while the application is not polling (the event queue
// empty or already full, so that reads pile up behind it); once the application polls it
// gets paste-start, the four characters in order, paste-end - nothing lost, duplicated or
// overwritten.
func H11_pipeline() {
	e := h01New("xterm-256color", 3, 1, false)
	e.s.EnablePaste()
	for e.s.HasPendingEvent() {
		e.s.PollEvent()
	}
	pre := []int{0, 10}[vsymChoice("prefill", 2)]
	for i := 0; i < pre; i++ {
		_ = e.s.PostEvent(NewEventInterrupt(nil))
	}
	txt := vsymBytes("txt", 4)
	for i := range txt {
		vsymAssume(vsymAnd(txt[i] >= 0x21, txt[i] <= 0x7e))
	}
	r1 := append([]byte("\x1b[200~"), txt[0], txt[1])
	r2 := []byte{txt[2], txt[3]}
	r3 := []byte("\x1b[201~")
	e.tty.inCh <- r1
	if vsymChoice("gap", 2) == 1 {
		vsymRunBlocked()
	}
	e.tty.inCh <- r2
	e.tty.inCh <- r3
	vsymRunBlocked()
	var got []Event
	for i := 0; i < pre+6; i++ {
		if !e.s.HasPendingEvent() {
			vsymRunBlocked()
		}
		if !e.s.HasPendingEvent() {
			break
		}
		ev := e.s.PollEvent()
		vsymRunBlocked()
		if i >= pre {
			got = append(got, ev)
		}
	}
	vsymAssert(len(got) == 6, "pipeline: paste-start, one event per pasted character, paste-end")
	if len(got) == 6 {
		p0, ok0 := got[0].(*EventPaste)
		p1, ok1 := got[5].(*EventPaste)
		vsymAssert(ok0 && p0.Start() && ok1 && p1.End(), "pipeline: the text is bracketed by paste-start and paste-end")
		for i := 0; i < 4; i++ {
			k, ok := got[1+i].(*EventKey)
			vsymAssert(ok && k.Key() == KeyRune && k.Rune() == rune(txt[i]), "pipeline: pasted character i arrives as rune key event i (reads queued behind a full event queue are not overwritten)")
		}
	}
	vsymRunBlocked()
	vsymAssert(!e.s.HasPendingEvent(), "pipeline: nothing is delivered twice")
	e.s.Fini()
}

// H11_pasteesc: a lone ESC is still pending when a bracketed paste begins (same read, the
// escape timeout then passes), or when it ends: the pasted characters arrive as plain
// runes - the pending Alt prefix does not leak onto pasted text - between one paste-start
// and one paste-end, and a key typed after the paste is delivered too.
func H11_pasteesc() {
	t := hNewTScreen("xterm-256color")
	text := vsymBytes("s", 2)
	for i := range text {
		vsymAssume(vsymAnd(text[i] >= 0x21, text[i] <= 0x7e))
	}
	var s []byte
	where := vsymChoice("esc", 3) // 0: no ESC, 1: before paste-start, 2: before paste-end
	if where == 1 {
		s = append(s, 0x1b)
	}
	s = append(s, "\x1b[200~"...)
	s = append(s, text...)
	if where == 2 {
		s = append(s, 0x1b)
	}
	s = append(s, "\x1b[201~"...)
	s = append(s, 'q')
	buf := &bytes.Buffer{}
	buf.Write(s)
	evs := t.collectEventsFromInput(buf, true)
	vsymAssert(buf.Len() == 0, "paste with a pending ESC: nothing stays buffered once the timeout passed")
	starts, ends, inside := 0, 0, false
	var runes []*EventKey
	var after []*EventKey
	for _, ev := range evs {
		switch x := ev.(type) {
		case *EventPaste:
			if x.Start() {
				starts++
				inside = true
			} else {
				ends++
				inside = false
			}
		case *EventKey:
			if inside {
				runes = append(runes, x)
			} else if starts > 0 && ends > 0 {
				after = append(after, x)
			}
		}
	}
	vsymAssert(starts == 1 && ends == 1, "paste with a pending ESC: exactly one paste-start and one paste-end")
	n := 0
	for _, k := range runes {
		if k.Key() == KeyRune {
			vsymAssert(n < 2 && k.Rune() == rune(text[n%2]) && k.Modifiers() == ModNone, "paste with a pending ESC: pasted characters arrive as plain runes, in order")
			n++
		}
	}
	vsymAssert(n == 2, "paste with a pending ESC: every pasted character is delivered")
	vsymAssert(len(after) == 1 && after[0].Key() == KeyRune && after[0].Rune() == 'q', "paste with a pending ESC: the key typed after the paste is delivered")
	if where != 2 && len(after) == 1 {
		vsymAssert(after[0].Modifiers() == ModNone, "a key typed after the paste carries no stale Alt")
	}
}
