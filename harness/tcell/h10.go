//go:build verif && !js

package tcell

import (
	"strconv"
	"sync"
)

// C10 — concurrent use of one Screen is free of data races, decided through the
// lock discipline that implies it: every Screen method is executed symbolically
// from the post-Init state with lock-set tracking on; a location that some
// method writes and some method accesses without the screen lock is a race
// candidate.  Candidates are replayed natively: the two methods run
// concurrently under the race detector (H10_race_replay).

var h10Methods = []string{
	"Show", "Sync", "SetContent", "GetContent", "Fill", "Clear", "SetStyle", "ShowCursor", "HideCursor",
	"SetCursorStyle", "Size", "EnableMouse", "DisableMouse", "EnablePaste", "DisablePaste", "EnableFocus",
	"DisableFocus", "Colors", "CharacterSet", "RegisterRuneFallback", "UnregisterRuneFallback", "CanDisplay",
	"HasMouse", "HasKey", "SetSize", "Beep", "SetTitle", "SetClipboard", "GetClipboard", "LockRegion",
	"PostEvent", "HasPendingEvent", "PollEvent", "Suspend+Resume", "Fini",
	"input:mouse", "window-resize+Show",
}

var h10Env *h01Env // the environment of the screen under analysis (tty access for the two pseudo-methods)

func h10Call(s Screen, k int, sym bool) {
	x, y, r := 0, 0, rune('x')
	if sym {
		x, y = vsymInt("x"), vsymInt("y")
		r = vsymRune("r")
		vsymAssume(vsymAnd(r >= 0x21, r <= 0x7e))
	}
	switch h10Methods[k] {
	case "Show":
		s.Show()
	case "Sync":
		s.Sync()
	case "SetContent":
		s.SetContent(x, y, r, nil, StyleDefault.Bold(true))
	case "GetContent":
		s.GetContent(x, y)
	case "Fill":
		s.Fill(r, StyleDefault)
	case "Clear":
		s.Clear()
	case "SetStyle":
		s.SetStyle(StyleDefault.Reverse(true))
	case "ShowCursor":
		s.ShowCursor(x, y)
	case "HideCursor":
		s.HideCursor()
	case "SetCursorStyle":
		s.SetCursorStyle(CursorStyleSteadyBar, ColorRed)
	case "Size":
		s.Size()
	case "EnableMouse":
		s.EnableMouse()
	case "DisableMouse":
		s.DisableMouse()
	case "EnablePaste":
		s.EnablePaste()
	case "DisablePaste":
		s.DisablePaste()
	case "EnableFocus":
		s.EnableFocus()
	case "DisableFocus":
		s.DisableFocus()
	case "Colors":
		s.Colors()
	case "CharacterSet":
		s.CharacterSet()
	case "RegisterRuneFallback":
		s.RegisterRuneFallback(r, "?")
	case "UnregisterRuneFallback":
		s.UnregisterRuneFallback(r)
	case "CanDisplay":
		s.CanDisplay(r, true)
		s.CanDisplay(0xe9, true) // not encodable in the US-ASCII locale the harness selects: consults the fallback table
	case "HasMouse":
		s.HasMouse()
	case "HasKey":
		s.HasKey(KeyF1)
	case "SetSize":
		s.SetSize(4, 2)
	case "Beep":
		_ = s.Beep()
	case "SetTitle":
		s.SetTitle("t")
	case "SetClipboard":
		s.SetClipboard([]byte("c"))
	case "GetClipboard":
		s.GetClipboard()
	case "LockRegion":
		s.LockRegion(0, 0, 1, 1, true)
	case "PostEvent":
		_ = s.PostEvent(NewEventInterrupt(nil))
	case "HasPendingEvent":
		s.HasPendingEvent()
	case "PollEvent":
		if s.HasPendingEvent() {
			s.PollEvent()
		}
	case "Suspend+Resume":
		_ = s.Suspend()
		_ = s.Resume()
	case "Fini":
		s.Fini()
	case "input:mouse":
		// terminal input handled by the library's own goroutines: an SGR mouse report
		if h10Env != nil {
			select {
			case h10Env.tty.inCh <- []byte("\x1b[<0;2;1M"):
			default:
			}
			vsymRunBlocked()
			for k := 0; k < 3 && s.HasPendingEvent(); k++ {
				s.PollEvent()
			}
		}
	case "window-resize+Show":
		if h10Env != nil {
			if h10Env.tty.w == 3 {
				h10Env.tty.w = 4
			} else {
				h10Env.tty.w = 3
			}
			s.Show()
		}
	}
}

// H10_lockset: every Screen method, symbolic arguments, lock-set tracking on.
func H10_lockset() {
	vsymSetenv("LC_ALL", "C") // US-ASCII locale: unencodable runes reach the ACS and fallback tables
	e := h01New("xterm-256color", 3, 2, false)
	e.s.SetContent(0, 0, 'a', nil, StyleDefault)
	e.s.Show()
	vsymTrack(e.t)
	h10Env = e
	k := vsymChoice("method", len(h10Methods))
	vsymNote("method", strconv.Itoa(k)+":"+h10Methods[k])
	h10Call(e.s, k, true)
	// output integrity: bytes reach the tty only in whole, well-formed blocks
	vsymAssert(len(e.tty.vt.bad) == 0, "every block written by a Screen method is a well-formed stream")
}

// H10_race_replay is not a symbolic harness: it is the native replay of a race
// candidate — methods a and b run concurrently (with the library's own
// goroutines) under `go test -race`.
func H10_race_replay() {
	a, b := vsymParam("a", 0), vsymParam("b", 0)
	vsymSetenv("LC_ALL", "C")
	// several fresh screens: one-shot methods (Fini, Suspend) get one racing window per trial
	for trial := 0; trial < 40; trial++ {
		e := h01New("xterm-256color", 3, 2, false)
		e.s.SetContent(0, 0, 'a', nil, StyleDefault)
		e.s.Show()
		h10Env = e
		var wg sync.WaitGroup
		for _, k := range []int{a, b} {
			k := k
			wg.Add(1)
			go func() {
				defer wg.Done()
				for i := 0; i < 12; i++ {
					h10Call(e.s, k, false)
				}
			}()
		}
		wg.Wait()
		e.s.Fini()
	}
}

// H10_hb: happens-before race detection (job parameter hbrace=1) over concurrent use: reads
// arrive (and pile up while the application does not poll), a resize is notified, and the
// application thread meanwhile draws, queries, posts and finally polls and shuts down.
// Every pair of accesses to the same memory by different goroutines must be ordered by a
// channel operation, a lock, a WaitGroup or a go statement; an unordered pair is reported
// and replayed under the Go race detector with the same inputs.
func H10_hb() {
	e := h01New("xterm-256color", 3, 1, false)
	e.tty.scrMu = &e.t.Mutex
	fill := []int{0, 10}[vsymChoice("fill", 2)]
	for i := 0; i < fill; i++ {
		_ = e.s.PostEvent(NewEventInterrupt(nil))
	}
	reads := 1 + vsymChoice("reads", 3)
	for i := 0; i < reads; i++ {
		e.tty.inCh <- []byte{byte('a' + 2*i), byte('b' + 2*i)}
		vsymRunBlocked()
	}
	if vsymChoice("resize", 2) == 1 && e.tty.cb != nil {
		e.tty.w, e.tty.h = 4, 2
		e.tty.vt.resizeTo(4, 2)
		e.tty.cb()
	}
	// (thorough tier: forced context switches at synchronisation points from here on, job parameter preempt)
	vsymPreemptWindow(true)
	switch vsymChoice("app", 8) {
	case 0:
		e.s.SetContent(1, 0, 'x', nil, StyleDefault)
		e.s.Show()
	case 1:
		e.s.Sync()
	case 2:
		_, _ = e.s.Size()
		_ = e.s.HasPendingEvent()
	case 3:
		_ = e.s.PostEvent(NewEventInterrupt(nil))
	case 4:
		e.s.EnableMouse()
		e.s.EnablePaste()
	case 5:
		e.s.SetCursorStyle(CursorStyleSteadyBar)
		e.s.ShowCursor(0, 0)
		e.s.Show()
	case 6:
		_ = e.s.Suspend()
		_ = e.s.Resume()
	case 7:
		e.s.Beep()
		_ = e.s.CanDisplay('x', true)
	}
	vsymRunBlocked()
	for e.s.HasPendingEvent() {
		e.s.PollEvent()
		vsymRunBlocked()
	}
	e.s.Fini()
	vsymPreemptWindow(false)
	vsymAssert(e.t.fini && !e.tty.running, "the scenario ran to its end (Fini returned, the tty is stopped)")
	vsymAssert(e.tty.unlockedWrites == 0, "every write to the terminal after Init is made with the screen lock held (output of concurrent calls cannot interleave with a frame)")
}
