//go:build verif && !js

package tcell

import (
	"bytes"
	"encoding/base64"
	"github.com/gdamore/tcell/v2/terminfo"
)

// C02 — input decoding is independent of read chunking and consumes every byte.

// hEvEq compares two events field by field (When() excluded).
func hEvEq(a, b Event) bool {
	switch x := a.(type) {
	case *EventKey:
		y, ok := b.(*EventKey)
		return ok && vsymAnd(x.Key() == y.Key(), vsymAnd(x.Rune() == y.Rune(), x.Modifiers() == y.Modifiers()))
	case *EventMouse:
		y, ok := b.(*EventMouse)
		if !ok {
			return false
		}
		ax, ay := x.Position()
		bx, by := y.Position()
		return vsymAnd(vsymAnd(ax == bx, ay == by), vsymAnd(x.Buttons() == y.Buttons(), x.Modifiers() == y.Modifiers()))
	case *EventPaste:
		y, ok := b.(*EventPaste)
		return ok && x.Start() == y.Start()
	case *EventFocus:
		y, ok := b.(*EventFocus)
		return ok && x.Focused == y.Focused
	case *EventClipboard:
		y, ok := b.(*EventClipboard)
		return ok && bytes.Equal(x.Data(), y.Data())
	}
	return false
}

func hEvsEq(a, b []Event) bool {
	if len(a) != len(b) {
		return false
	}
	eq := true
	for i := range a {
		eq = vsymAnd(eq, hEvEq(a[i], b[i]))
	}
	return eq
}

func h02Term() string {
	return []string{"xterm-256color", "wy50", "linux", "vt220", "screen", "vt52"}[vsymChoice("term", vsymParam("terms", 1))]
}

// H02_keys: for every built-in terminal description, every key sequence it defines,
// followed by a symbolic key press, decodes to the same events whether it arrives in
// one read or split at any point, and nothing is delivered before the sequence is
// complete (no timeout expiring in between).
func H02_keys() {
	ents := terminfo.VerifEntries()
	ti := ents[vsymChoice("term", len(ents))]
	vsymNote("term", ti.Name)
	t1, t2 := hNewTScreen(ti.Name), hNewTScreen(ti.Name)
	sfx := vsymByte("suffix")
	vsymAssume(vsymAnd(sfx >= 'a', sfx <= 'z'))
	seen := map[string]bool{}
	for _, c := range h03Caps(t1.ti) {
		if seen[c.seq] || (len(c.seq) == 1 && c.seq[0] == 0x1b) {
			continue
		}
		seen[c.seq] = true
		s := append([]byte(c.seq), sfx)
		bufA := &bytes.Buffer{}
		bufA.Write(s)
		evA := t1.collectEventsFromInput(bufA, false)
		restA := append([]byte{}, bufA.Bytes()...)
		t1.collectEventsFromInput(bufA, true)
		t1.escaped, t1.buttondn = false, false
		for k := 1; k < len(s); k++ {
			bufB := &bytes.Buffer{}
			bufB.Write(s[:k])
			evB := t2.collectEventsFromInput(bufB, false)
			if k < len(c.seq) {
				vsymAssert(len(evB) == 0, "no event is delivered for an incomplete key sequence before the timeout: "+ti.Name)
			}
			bufB.Write(s[k:])
			evB = append(evB, t2.collectEventsFromInput(bufB, false)...)
			vsymAssert(hEvsEq(evA, evB), "a key sequence split across two reads gives the same events as in one read: "+ti.Name)
			vsymAssert(bytes.Equal(restA, bufB.Bytes()), "a key sequence split across two reads leaves the same bytes buffered: "+ti.Name)
			t2.collectEventsFromInput(bufB, true)
			t2.escaped, t2.buttondn = false, false
		}
	}
}

// H02_split: one read vs. the same bytes split at any point give the same
// events and the same residual state; with the timeout expired nothing stays buffered.
func H02_split() {
	n := vsymParam("n", 3)
	term := h02Term()
	t1, t2 := hNewTScreen(term), hNewTScreen(term)
	t1.cells.w, t1.cells.h, t2.cells.w, t2.cells.h = 80, 24, 80, 24
	s := vsymBytes("s", n)
	k := vsymChoice("k", n+1)

	bufA := &bytes.Buffer{}
	bufA.Write(s)
	evA := t1.collectEventsFromInput(bufA, false)

	bufB := &bytes.Buffer{}
	bufB.Write(s[:k])
	evB := t2.collectEventsFromInput(bufB, false)
	bufB.Write(s[k:])
	evB = append(evB, t2.collectEventsFromInput(bufB, false)...)

	vsymAssert(hEvsEq(evA, evB), "the same bytes split across two reads give the same events in the same order")
	vsymAssert(bytes.Equal(bufA.Bytes(), bufB.Bytes()), "the same bytes split across two reads leave the same bytes buffered")
	vsymAssert(t1.escaped == t2.escaped && t1.buttondn == t2.buttondn, "the same bytes split across two reads leave the same decoder state")

	t1.collectEventsFromInput(bufA, true)
	vsymAssert(bufA.Len() == 0, "once the escape timeout has expired no byte remains buffered")
}

// H02_sgrlong: SGR mouse reports with fields of 1..4 symbolic digits (up to 19 bytes),
// followed by a key press: split at every point they decode to the same events as in one
// read, and nothing is delivered before the report is complete.
func H02_sgrlong() {
	t1, t2 := hNewTScreen("xterm-256color"), hNewTScreen("xterm-256color")
	t1.cells.w, t1.cells.h, t2.cells.w, t2.cells.h = 80, 24, 80, 24
	s := []byte("\x1b[<")
	for i, tag := range []string{"b", "x", "y"} {
		f, _ := h12Field(tag, false)
		s = append(s, f...)
		if i < 2 {
			s = append(s, ';')
		}
	}
	if vsymChoice("final", 2) == 0 {
		s = append(s, 'M')
	} else {
		s = append(s, 'm')
	}
	rep := len(s)
	s = append(s, 'q')
	bufA := &bytes.Buffer{}
	bufA.Write(s)
	evA := t1.collectEventsFromInput(bufA, false)
	vsymAssert(len(evA) == 2 && bufA.Len() == 0, "a complete SGR report and the following key decode to two events")
	bd := t1.buttondn
	for k := 1; k < len(s); k++ {
		t2.buttondn, t2.escaped = false, false
		bufB := &bytes.Buffer{}
		bufB.Write(s[:k])
		evB := t2.collectEventsFromInput(bufB, false)
		if k < rep {
			vsymAssert(len(evB) == 0, "no event is delivered for an incomplete SGR mouse report before the timeout")
		}
		bufB.Write(s[k:])
		evB = append(evB, t2.collectEventsFromInput(bufB, false)...)
		vsymAssert(hEvsEq(evA, evB), "an SGR mouse report split across two reads gives the same events as in one read")
		vsymAssert(bufB.Len() == 0 && t2.buttondn == bd, "a split SGR mouse report leaves the same decoder state")
	}
}

// ---- per-parser differential checks against reference recognisers (refinput)

const (
	riReject = iota
	riNeedMore
	riComplete
)

// riSgr: (ESC [ | 0x9B) < P ; P ; P (M|m),  P = -?[0-9]*  (an empty field reads as 0, as ECMA-48 parameters do)
func riSgr(b []byte) (int, int) {
	i := 0
	if len(b) == 0 {
		return riNeedMore, 0
	}
	if b[0] == 0x9b {
		i = 1
	} else if b[0] == 0x1b {
		if len(b) < 2 {
			return riNeedMore, 0
		}
		if b[1] != '[' {
			return riReject, 0
		}
		i = 2
	} else {
		return riReject, 0
	}
	if i >= len(b) {
		return riNeedMore, 0
	}
	if b[i] != '<' {
		return riReject, 0
	}
	i++
	for f := 0; f < 3; f++ {
		if i >= len(b) {
			return riNeedMore, 0
		}
		if b[i] == '-' {
			i++
		}
		nd := 0
		for i < len(b) && b[i] >= '0' && b[i] <= '9' {
			i++
			nd++
		}
		if i >= len(b) {
			return riNeedMore, 0
		}
		_ = nd
		if f < 2 {
			if b[i] != ';' {
				return riReject, 0
			}
			i++
		} else {
			if b[i] != 'M' && b[i] != 'm' {
				return riReject, 0
			}
			i++
		}
	}
	return riComplete, i
}

// riX11: (ESC [ | 0x9B) M Cb Cx Cy
func riX11(b []byte) (int, int) {
	i := 0
	if len(b) == 0 {
		return riNeedMore, 0
	}
	if b[0] == 0x9b {
		i = 1
	} else if b[0] == 0x1b {
		if len(b) < 2 {
			return riNeedMore, 0
		}
		if b[1] != '[' {
			return riReject, 0
		}
		i = 2
	} else {
		return riReject, 0
	}
	if i >= len(b) {
		return riNeedMore, 0
	}
	if b[i] != 'M' {
		return riReject, 0
	}
	if len(b) < i+4 {
		return riNeedMore, 0
	}
	return riComplete, i + 4
}

// riFocus: ESC [ I|O
func riFocus(b []byte) (int, int) {
	pat := []byte{0x1b, '['}
	for i := 0; i < 2; i++ {
		if i >= len(b) {
			return riNeedMore, 0
		}
		if b[i] != pat[i] {
			return riReject, 0
		}
	}
	if len(b) < 3 {
		return riNeedMore, 0
	}
	if b[2] != 'I' && b[2] != 'O' {
		return riReject, 0
	}
	return riComplete, 3
}

func riB64(c byte) bool {
	return (c >= 'A' && c <= 'Z') || (c >= 'a' && c <= 'z') || (c >= '0' && c <= '9') || c == '+' || c == '/' || c == '='
}

// riClip: ESC ] 52 ; c ; base64* (BEL | ESC \)   -> payload bounds
func riClip(b []byte) (int, int, int) {
	pre := []byte("\x1b]52;c;")
	for i := range pre {
		if i >= len(b) {
			return riNeedMore, 0, 0
		}
		if b[i] != pre[i] {
			return riReject, 0, 0
		}
	}
	i := len(pre)
	for i < len(b) && riB64(b[i]) {
		i++
	}
	if i >= len(b) {
		return riNeedMore, 0, 0
	}
	if b[i] == 7 {
		return riComplete, i + 1, i
	}
	if b[i] == 0x1b {
		if i+1 >= len(b) {
			return riNeedMore, 0, 0
		}
		if b[i+1] == '\\' {
			return riComplete, i + 2, i
		}
	}
	return riReject, 0, 0
}

func h02Parser(which int, t *tScreen, buf *bytes.Buffer, evs *[]Event) (bool, bool) {
	switch which {
	case 0:
		return t.parseSgrMouse(buf, evs)
	case 1:
		return t.parseXtermMouse(buf, evs)
	case 2:
		return t.parseFocus(buf, evs)
	}
	return t.parseClipboard(buf, evs)
}

// h02Diff: the parser's verdict on b agrees with the reference recogniser:
// complete iff the reference says complete, consuming exactly the reference's
// byte count and leaving the following bytes untouched; need-more implies partial.
func h02Diff(which int, n int, name string) {
	t := hNewTScreen("xterm-256color")
	t.cells.w, t.cells.h = 80, 24
	b := vsymBytes("b", n)
	orig := append([]byte{}, b...)
	var verdict, used, payEnd int
	switch which {
	case 0:
		verdict, used = riSgr(orig)
	case 1:
		verdict, used = riX11(orig)
	case 2:
		verdict, used = riFocus(orig)
	case 3:
		verdict, used, payEnd = riClip(orig)
	}
	buf := bytes.NewBuffer(b)
	var evs []Event
	part, comp := h02Parser(which, t, buf, &evs)
	if verdict == riComplete {
		vsymAssert(comp, name+": a complete report is recognised")
		vsymAssert(buf.Len() == n-used, name+": exactly the report's bytes are consumed")
		vsymAssert(bytes.Equal(buf.Bytes(), orig[used:]), name+": the bytes after the report are left untouched")
		if which == 3 {
			want := make([]byte, base64.StdEncoding.DecodedLen(payEnd-7))
			num, err := base64.StdEncoding.Decode(want, orig[7:payEnd])
			if err == nil {
				vsymAssert(len(evs) == 1, name+": a well-formed OSC 52 reply yields one clipboard event")
				if len(evs) == 1 {
					ce, ok := evs[0].(*EventClipboard)
					vsymAssert(ok && bytes.Equal(ce.Data(), want[:num]), name+": clipboard payload is the base64 decoding")
				}
			}
		} else {
			vsymAssert(len(evs) == 1, name+": one event per report")
		}
	} else {
		vsymAssert(!comp, name+": bytes that are not a complete report are not consumed as one")
		vsymAssert(buf.Len() == n, name+": nothing is consumed without a complete report")
		if verdict == riNeedMore {
			vsymAssert(part, name+": a proper prefix of a report is reported as partial (so a split report is not torn apart)")
		}
	}
}

// every length 1..n: short buffers exercise the parsers' "proper prefix => partial" answers
func h02Len(n int) int { return 1 + vsymChoice("len", n) }

func H02_sgr()   { h02Diff(0, h02Len(vsymParam("n", 9)), "parseSgrMouse") }
func H02_x11()   { h02Diff(1, h02Len(vsymParam("n", 7)), "parseXtermMouse") }
func H02_focus() { h02Diff(2, h02Len(vsymParam("n", 4)), "parseFocus") }
func H02_clip()  { h02Diff(3, h02Len(vsymParam("n", 11)), "parseClipboard") }
