//go:build verif && !js

package tcell

import (
	"strings"

	"github.com/gdamore/tcell/v2/terminfo"
)

// C07 — parameterized capability strings evaluate per terminfo(5).
// Differential: real Terminfo.TParm vs reftparm, output compared byte for byte.

// h07Programs: every distinct parameterized string of the database plus the
// ones tscreen.go hard-codes (read back from a constructed xterm screen).
func h07Programs() []string {
	seen := map[string]bool{}
	var out []string
	add := func(s string) {
		if strings.Contains(s, "%") && !seen[s] {
			seen[s] = true
			out = append(out, s)
		}
	}
	for _, ti := range terminfo.VerifEntries() {
		for _, s := range []string{ti.SetFg, ti.SetBg, ti.SetFgBg, ti.SetFgRGB, ti.SetBgRGB, ti.SetFgBgRGB, ti.SetCursor,
			ti.CursorColorRGB, ti.EnterUrl, ti.SetWindowSize, ti.SetWindowTitle, ti.UnderlineColor, ti.UnderlineColorRGB,
			ti.DoubleUnderline, ti.CurlyUnderline, ti.DottedUnderline, ti.DashedUnderline} {
			add(s)
		}
	}
	// synthesized by terminfo.LookupTerminfo
	add("\x1b[38;2;%p1%d;%p2%d;%p3%dm")
	add("\x1b[48;2;%p1%d;%p2%d;%p3%dm")
	add("\x1b[38;2;%p1%d;%p2%d;%p3%d;48;2;%p4%d;%p5%d;%p6%dm")
	// hard-coded by tscreen.go: take them from a real screen object
	if ti := terminfo.VerifGet("xterm-256color"); ti != nil {
		if s, err := NewTerminfoScreenFromTtyTerminfo(nil, ti); err == nil {
			t := s.(*baseScreen).screenImpl.(*tScreen)
			for _, p := range []string{t.enterUrl, t.setWinSize, t.setTitle, t.setClipboard, t.cursorRGB, t.underColor, t.underRGB} {
				add(p)
			}
		}
	}
	return out
}

// h07Args builds symbolic arguments for prog: %pN followed by %s is a string
// parameter (<= 2 symbolic bytes), everything else an integer in 0..maxint.
func h07Args(prog string, maxint int) []interface{} {
	n := 0
	for i := 1; i <= 9; i++ {
		if strings.Contains(prog, "%p"+string(rune('0'+i))) {
			n = i
		}
	}
	args := make([]interface{}, n)
	for i := 1; i <= n; i++ {
		if strings.Contains(prog, "%p"+string(rune('0'+i))+"%s") {
			args[i-1] = vsymString("s"+string(rune('0'+i)), vsymChoice("slen"+string(rune('0'+i)), 3))
		} else {
			v := vsymInt("p" + string(rune('0'+i)))
			vsymAssume(vsymAnd(v >= 0, v <= maxint))
			args[i-1] = v
		}
	}
	return args
}

func h07Compare(prog string, args []interface{}) {
	ti := &terminfo.Terminfo{}
	want, ok := refTParm(prog, args...)
	if !ok {
		vsymCutPath("program has no terminfo(5) meaning")
	}
	got := ti.TParm(prog, args...)
	vsymNote("prog", prog)
	vsymAssert(got == want, "TParm output equals the terminfo(5) reference interpreter's")
}

// H07_db: every parameterized string the library uses, over its whole parameter domain.
func H07_db() {
	progs := h07Programs()
	p := progs[vsymChoice("prog", len(progs))]
	rtReset()
	h07Compare(p, h07Args(p, vsymParam("maxint", 1023)))
}

// ---- generated programs

type h07Gen struct {
	prog  string
	types []bool // stack model: true = string entry
	setS  bool   // static variable A has been set
}

func (g *h07Gen) pushT(str bool) { g.types = append(g.types, str) }
func (g *h07Gen) popT()          { g.types = g.types[:len(g.types)-1] }

// ints(n): the top n entries exist and are integers
func (g *h07Gen) ints(n int) bool {
	if len(g.types) < n {
		return false
	}
	for i := 0; i < n; i++ {
		if g.types[len(g.types)-1-i] {
			return false
		}
	}
	return true
}

func (g *h07Gen) topStr() bool { return len(g.types) > 0 && g.types[len(g.types)-1] }

// h07Token appends one token chosen from the terminfo(5) alphabet, respecting
// stack safety and type consistency (A.8).  Returns false if the choice is not applicable.
func (g *h07Gen) token(tag string) bool {
	const nTok = 36
	t := vsymChoice(tag, nTok)
	switch t {
	case 0:
		g.prog += "%p1"
		g.pushT(false)
	case 1:
		g.prog += "%p2"
		g.pushT(false)
	case 2:
		g.prog += "%p3"
		g.pushT(false)
	case 3: // string parameter
		g.prog += "%p4"
		g.pushT(true)
	case 4:
		g.prog += "%{" + []string{"0", "1", "7", "10", "255"}[vsymChoice(tag+".k", 5)] + "}"
		g.pushT(false)
	case 5:
		g.prog += "%'" + string(rune(0x20+vsymChoice(tag+".c", 3)*0x20+1)) + "'"
		g.pushT(false)
	case 6:
		g.prog += "%i"
	case 7:
		g.prog += "x"
	case 8:
		g.prog += "%%"
	case 9, 10, 11, 12, 13, 14, 15, 16, 17, 18, 19: // binary operators
		if !g.ints(2) {
			return false
		}
		g.prog += "%" + string("+-*/m&|^=<>"[t-9])
		g.popT()
	case 20:
		if !g.ints(1) {
			return false
		}
		g.prog += "%!"
	case 21:
		if !g.ints(1) {
			return false
		}
		g.prog += "%~"
	case 22:
		if !g.topStr() {
			return false
		}
		g.prog += "%l"
		g.popT()
		g.pushT(false)
	case 23:
		if !g.ints(1) {
			return false
		}
		g.prog += "%d"
		g.popT()
	case 24:
		if !g.ints(1) {
			return false
		}
		g.prog += "%c"
		g.popT()
	case 25:
		if !g.topStr() {
			return false
		}
		g.prog += "%s"
		g.popT()
	case 26:
		if !g.ints(1) {
			return false
		}
		g.prog += []string{"%2d", "%02d", "%x", "%X", "%o", "%:-3d", "%:+d", "%#x", "%3x", "%03o", "% d", "%:#o"}[vsymChoice(tag+".f", 12)]
		g.popT()
	case 27:
		if !g.ints(1) {
			return false
		}
		g.prog += "%Pa"
		g.popT()
	case 28:
		g.prog += "%ga"
		g.pushT(false)
	case 29:
		if !g.ints(1) {
			return false
		}
		g.prog += "%PA"
		g.popT()
		g.setS = true
	case 30:
		g.prog += "%gA"
		g.pushT(false)
	case 31:
		g.prog += "%p5" // never supplied: reads as 0
		g.pushT(false)
	case 32:
		if !g.ints(2) {
			return false
		}
		g.prog += "%A"
		g.popT()
	case 33:
		if !g.ints(2) {
			return false
		}
		g.prog += "%O"
		g.popT()
	case 34:
		if !g.topStr() {
			return false
		}
		g.prog += []string{"%5s", "%:-5s", "%.1s"}[vsymChoice(tag+".f", 3)]
		g.popT()
	case 35:
		g.prog += ";"
	}
	return true
}

func h07GenArgs() []interface{} {
	p1, p2, p3 := vsymInt("p1"), vsymInt("p2"), vsymInt("p3")
	lim := vsymParam("maxabs", 100000)
	vsymAssume(vsymAnd(vsymAnd(p1 >= -lim, p1 <= lim), vsymAnd(vsymAnd(p2 >= -lim, p2 <= lim), vsymAnd(p3 >= 0, p3 <= 255))))
	// printable ASCII bytes 0x20..0x5f (width/precision count runes: keep ASCII)
	n4 := vsymChoice("s4len", 3)
	b4 := make([]byte, n4)
	for i := range b4 {
		b4[i] = 0x20 + vsymByte("s4")&0x3f
	}
	return []interface{}{p1, p2, p3, string(b4)}
}

// H07_gen: straight-line programs of k tokens.
func H07_gen() {
	k := vsymParam("k", 2)
	g := &h07Gen{}
	for i := 0; i < k; i++ {
		if !g.token("t" + string(rune('0'+i))) {
			vsymCutPath("token not applicable")
		}
	}
	// print what is left on the stack so that every operator's result is observed
	for len(g.types) > 0 {
		if g.topStr() {
			g.prog += "%s"
		} else {
			g.prog += "%d"
		}
		g.popT()
		if len(g.types) > 0 {
			g.prog += ","
		}
	}
	rtReset()
	args := h07GenArgs()
	h07Compare(g.prog, args)
	if g.setS {
		// static variables persist across calls; dynamic ones do not
		h07Compare("%gA%d.%ga%d", args)
	}
}

var h07Conds = []string{"%p1", "%p1%p2%<", "%p2%!", "%p1%{8}%<"}
var h07Bodies = []string{"A", "B%p1%d", ""}

func h07Cond(tag string) string { return h07Conds[vsymChoice(tag, len(h07Conds))] }
func h07Body(tag string) string { return h07Bodies[vsymChoice(tag, len(h07Bodies))] }

// H07_cond: conditionals — if/then, if/then/else, else-if chains and one level of nesting.
func H07_cond() {
	var prog string
	switch vsymChoice("shape", 10) {
	case 0:
		prog = "[%?" + h07Cond("c1") + "%t" + h07Body("b1") + "%;]"
	case 1:
		prog = "[%?" + h07Cond("c1") + "%t" + h07Body("b1") + "%e" + h07Body("b2") + "%;]"
	case 2: // else-if chain of length 2
		prog = "[%?" + h07Cond("c1") + "%tA%e" + h07Cond("c2") + "%tB%e" + h07Body("b3") + "%;]"
	case 3: // else-if chain of length 3, no final else
		prog = "[%?" + h07Cond("c1") + "%tA%e" + h07Cond("c2") + "%tB%e" + h07Cond("c3") + "%tC%;]"
	case 4: // nested in the then-part
		prog = "[%?" + h07Cond("c1") + "%t<%?" + h07Cond("c2") + "%tA%eB%;>%eC%;]"
	case 5: // nested in the else-part
		prog = "[%?" + h07Cond("c1") + "%tA%e<%?" + h07Cond("c2") + "%tB%eC%;>%;]"
	case 6: // nested in the condition
		prog = "[%?%?" + h07Cond("c1") + "%t%{1}%e%{0}%;%tA%eB%;]"
	case 7: // two conditionals in sequence
		prog = "%?" + h07Cond("c1") + "%tA%;|%?" + h07Cond("c2") + "%tB%eC%;"
	case 8: // nested without else inside a then-part that has an else
		prog = "[%?" + h07Cond("c1") + "%t%?" + h07Cond("c2") + "%tA%;B%eC%;]"
	case 9: // nested if/then inside else-if chain's then
		prog = "[%?" + h07Cond("c1") + "%tA%e" + h07Cond("c2") + "%t%?" + h07Cond("c3") + "%tB%eC%;%eD%;]"
	}
	rtReset()
	p1, p2 := vsymInt("p1"), vsymInt("p2")
	vsymAssume(vsymAnd(vsymAnd(p1 >= -9, p1 <= 99), vsymAnd(p2 >= -9, p2 <= 99)))
	h07Compare(prog, []interface{}{p1, p2})
}

// H07_ops: every operator of terminfo(5) applied to symbolic operands.
func H07_ops() {
	ops := []string{"%+", "%-", "%*", "%/", "%m", "%&", "%|", "%^", "%=", "%<", "%>", "%A", "%O"}
	uops := []string{"%!", "%~"}
	var prog string
	k := vsymChoice("op", len(ops)+len(uops)+3)
	switch {
	case k < len(ops):
		prog = "%p1%p2" + ops[k] + "%d"
	case k < len(ops)+len(uops):
		prog = "%p1" + uops[k-len(ops)] + "%d"
	case k == len(ops)+len(uops):
		prog = "%i%p1%d;%p2%d;%p3%d" // %i touches the first two parameters only
	case k == len(ops)+len(uops)+1:
		prog = "%p1%c%p2%c" // %c emits one byte
	default:
		prog = "%p1%'A'%+%c%p2%{10}%*%d"
	}
	rtReset()
	p1, p2, p3 := vsymInt("p1"), vsymInt("p2"), vsymInt("p3")
	lim := vsymParam("maxabs", 1000)
	if k < len(ops) && ops[k] == "%*" {
		// symbolic-by-symbolic 64-bit multiplication is out of the bit-blaster's reach:
		// the second operand is a concrete representative, the first stays symbolic
		p2 = []int{0, 1, 2, 7, -3, 1000}[vsymChoice("mulby", 6)]
	}
	vsymAssume(vsymAnd(vsymAnd(p1 >= -lim, p1 <= lim), vsymAnd(vsymAnd(p2 >= -lim, p2 <= lim), vsymAnd(p3 >= 0, p3 <= 255))))
	h07Compare(prog, []interface{}{p1, p2, p3})
}

// H07_robust: arbitrary program bytes never panic or hang.
// H07_mixed: %i, %l and %s with every mix of string and integer parameters (%i
// increments the first two parameters that are integers, whatever the other is).
func H07_mixed() {
	kinds := vsymChoice("kinds", 4) // bit i set: parameter i+1 is a string
	var args []interface{}
	var seg [2]string
	for i := 0; i < 2; i++ {
		pn := "%p" + string(rune('1'+i))
		if kinds&(1<<uint(i)) != 0 {
			args = append(args, vsymString("s"+string(rune('1'+i)), vsymChoice("slen"+string(rune('1'+i)), 3)))
			if vsymChoice("len"+string(rune('1'+i)), 2) == 1 {
				seg[i] = pn + "%l%d;"
			} else {
				seg[i] = pn + "%s;"
			}
		} else {
			v := vsymInt("p" + string(rune('1'+i)))
			vsymAssume(vsymAnd(v >= 0, v <= vsymParam("maxint", 1023)))
			args = append(args, v)
			seg[i] = pn + "%d;"
		}
	}
	prog := "%i" + seg[0] + seg[1]
	switch vsymChoice("order", 3) {
	case 1:
		prog = "%i" + seg[1] + seg[0]
	case 2:
		prog = seg[0] + seg[1]
	}
	rtReset()
	h07Compare(prog, args)
}

// H07_len: %l replaces its string operand by the length - whatever lies beneath it on the
// stack is what the next operator sees.
func H07_len() {
	str := vsymString("s", vsymChoice("slen", 4))
	v := vsymInt("v")
	vsymAssume(vsymAnd(v >= 0, v <= vsymParam("maxint", 1023)))
	var prog string
	var args []interface{}
	switch vsymChoice("shape", 5) {
	case 0:
		prog, args = "%p1%p2%l%+%d", []interface{}{v, str}
	case 1:
		prog, args = "%{7}%p1%l%*%d", []interface{}{str}
	case 2:
		prog, args = "%?%{2}%p1%l%>%tyes%eno%;", []interface{}{str}
	case 3:
		prog, args = "%p2%p1%l%d,%d", []interface{}{str, v}
	case 4:
		prog, args = "%p1%l%p1%l%+%d%p1%s", []interface{}{str}
	}
	rtReset()
	h07Compare(prog, args)
}

func H07_robust() {
	n := vsymParam("n", 4)
	prog := vsymString("prog", n)
	ti := &terminfo.Terminfo{}
	p1 := vsymInt("p1")
	vsymAssume(p1 >= -1000 && p1 <= 1000)
	s2 := vsymString("s2", 1)
	out := ti.TParm(prog, p1, s2)
	vsymAssert(len(out) >= 0, "TParm returns")
}
