//go:build verif && !js

package tcell

import (
	"fmt"
	"strconv"
)

// reftparm — a reference interpreter for terminfo(5) parameterized strings,
// written from the manual page as a recursive descent over
//   %? cond %t then [ %e (cond %t then)* [else] ] %;
// so that nesting and else-if chains are handled by construction.
// Operand order: "%p1%p2%-" is p1-p2 (the second popped is the left operand).
// Division/modulo by zero push 0.  %i adds one to the first two integer
// parameters.  Dynamic variables (a-z) live for one call, static ones (A-Z)
// for the process.

type rtVal struct {
	isStr bool
	i     int
	s     string
}

type rtMachine struct {
	prog   string
	pos    int
	stack  []rtVal
	params [9]rtVal
	dvars  [26]rtVal
	out    []byte
	bad    bool // malformed program (reference undefined)
}

var rtStatic [26]rtVal

func rtReset() {
	for i := range rtStatic {
		rtStatic[i] = rtVal{isStr: true}
	}
}

func (m *rtMachine) push(v rtVal)  { m.stack = append(m.stack, v) }
func (m *rtMachine) pushInt(i int) { m.stack = append(m.stack, rtVal{i: i}) }
func (m *rtMachine) pushBool(b bool) {
	if b {
		m.pushInt(1)
	} else {
		m.pushInt(0)
	}
}

func (m *rtMachine) pop() rtVal {
	if len(m.stack) == 0 {
		m.bad = true // stack underflow: terminfo(5) leaves it undefined
		return rtVal{}
	}
	v := m.stack[len(m.stack)-1]
	m.stack = m.stack[:len(m.stack)-1]
	return v
}

func (m *rtMachine) popInt() int {
	v := m.pop()
	if v.isStr {
		// string where a number is wanted: undefined by terminfo(5); mirror atoi
		n, _ := strconv.Atoi(v.s)
		return n
	}
	return v.i
}

func (m *rtMachine) popStr() string {
	v := m.pop()
	if v.isStr {
		return v.s
	}
	return strconv.Itoa(v.i)
}

func (m *rtMachine) next() (byte, bool) {
	if m.pos >= len(m.prog) {
		return 0, false
	}
	c := m.prog[m.pos]
	m.pos++
	return c, true
}

// seq executes tokens until a %t, %e or %; at this nesting level (returned) or end of program (0).
func (m *rtMachine) seq(active bool) byte {
	for {
		c, ok := m.next()
		if !ok {
			return 0
		}
		if c != '%' {
			if active {
				m.out = append(m.out, c)
			}
			continue
		}
		c, ok = m.next()
		if !ok {
			return 0
		}
		switch c {
		case '?':
			m.cond(active)
		case 't', 'e', ';':
			return c
		default:
			m.op(c, active)
		}
	}
}

func (m *rtMachine) cond(active bool) {
	term := m.seq(active) // the condition
	for {
		if term != 't' {
			// "%? ... %;" without %t, or unterminated: nothing more to do
			if term == 'e' {
				m.bad = true
			}
			return
		}
		take := false
		if active {
			take = m.popInt() != 0
		}
		term = m.seq(active && take) // then-part
		if term != 'e' {
			return // %; or end of program
		}
		active = active && !take
		term = m.seq(active) // else-part, or the condition of an else-if
		if term != 't' {
			if term == 'e' {
				m.bad = true
			}
			return
		}
	}
}

func (m *rtMachine) op(c byte, active bool) {
	// operators with an argument byte consume it even when skipping
	switch c {
	case 'p', 'P', 'g':
		a, ok := m.next()
		if !ok {
			m.bad = true
			return
		}
		if !active {
			return
		}
		switch c {
		case 'p':
			if a >= '1' && a <= '9' {
				m.push(m.params[a-'1'])
			} else {
				m.bad = true
			}
		case 'P':
			if a >= 'A' && a <= 'Z' {
				rtStatic[a-'A'] = m.pop()
			} else if a >= 'a' && a <= 'z' {
				m.dvars[a-'a'] = m.pop()
			} else {
				m.bad = true
			}
		case 'g':
			if a >= 'A' && a <= 'Z' {
				m.push(rtStatic[a-'A'])
			} else if a >= 'a' && a <= 'z' {
				m.push(m.dvars[a-'a'])
			} else {
				m.bad = true
			}
		}
		return
	case '\'':
		a, ok1 := m.next()
		q, ok2 := m.next()
		if !ok1 || !ok2 || q != '\'' {
			m.bad = true
			return
		}
		if active {
			m.pushInt(int(a))
		}
		return
	case '{':
		n, digits := 0, 0
		for {
			d, ok := m.next()
			if !ok {
				m.bad = true
				return
			}
			if d == '}' {
				break
			}
			if d < '0' || d > '9' {
				m.bad = true
				return
			}
			n = n*10 + int(d-'0')
			digits++
		}
		if digits == 0 {
			m.bad = true
		}
		if active {
			m.pushInt(n)
		}
		return
	}
	// printf-style: %[:]flags width .prec (d|o|x|X|s|c)
	if c == ':' || c == '#' || c == ' ' || c == '.' || (c >= '0' && c <= '9') || c == 'd' || c == 'o' || c == 'x' || c == 'X' || c == 's' || c == 'c' {
		spec := "%"
		if c == ':' {
			var ok bool
			c, ok = m.next()
			if !ok {
				m.bad = true
				return
			}
		}
		for c == '-' || c == '+' || c == '#' || c == ' ' {
			spec += string(c)
			var ok bool
			c, ok = m.next()
			if !ok {
				m.bad = true
				return
			}
		}
		for (c >= '0' && c <= '9') || c == '.' {
			spec += string(c)
			var ok bool
			c, ok = m.next()
			if !ok {
				m.bad = true
				return
			}
		}
		if !active {
			return
		}
		switch c {
		case 'd', 'o', 'x', 'X':
			v := m.popInt()
			if spec == "%" && c == 'd' {
				m.out = append(m.out, strconv.Itoa(v)...)
			} else {
				m.out = append(m.out, fmt.Sprintf(spec+string(c), v)...)
			}
		case 's':
			s := m.popStr()
			if spec == "%" {
				m.out = append(m.out, s...)
			} else {
				m.out = append(m.out, fmt.Sprintf(spec+"s", s)...)
			}
		case 'c':
			v := m.popInt()
			if spec == "%" {
				m.out = append(m.out, byte(v))
			} else {
				m.out = append(m.out, fmt.Sprintf(spec+"c", v)...)
			}
		default:
			m.bad = true
		}
		return
	}
	if !active {
		return
	}
	switch c {
	case '%':
		m.out = append(m.out, '%')
	case 'i':
		if !m.params[0].isStr {
			m.params[0].i++
		}
		if !m.params[1].isStr {
			m.params[1].i++
		}
	case 'l':
		m.pushInt(len(m.popStr()))
	case '+', '-', '*', '/', 'm', '&', '|', '^', '=', '<', '>', 'A', 'O':
		b := m.popInt()
		a := m.popInt()
		switch c {
		case '+':
			m.pushInt(a + b)
		case '-':
			m.pushInt(a - b)
		case '*':
			m.pushInt(a * b)
		case '/':
			if b == 0 {
				m.pushInt(0)
			} else {
				m.pushInt(a / b)
			}
		case 'm':
			if b == 0 {
				m.pushInt(0)
			} else {
				m.pushInt(a % b)
			}
		case '&':
			m.pushInt(a & b)
		case '|':
			m.pushInt(a | b)
		case '^':
			m.pushInt(a ^ b)
		case '=':
			m.pushBool(a == b)
		case '<':
			m.pushBool(a < b)
		case '>':
			m.pushBool(a > b)
		case 'A':
			m.pushBool(a != 0 && b != 0)
		case 'O':
			m.pushBool(a != 0 || b != 0)
		}
	case '!':
		m.pushBool(m.popInt() == 0)
	case '~':
		m.pushInt(^m.popInt())
	default:
		m.bad = true
	}
}

// refTParm evaluates prog; ok=false when terminfo(5) gives the program no meaning.
func refTParm(prog string, params ...interface{}) (string, bool) {
	m := &rtMachine{prog: prog}
	for i := range m.dvars {
		m.dvars[i] = rtVal{isStr: true}
	}
	for i := range m.params {
		// unused parameters read as 0
		m.params[i] = rtVal{}
	}
	for i, p := range params {
		if i >= 9 {
			break
		}
		switch v := p.(type) {
		case int:
			m.params[i] = rtVal{i: v}
		case string:
			m.params[i] = rtVal{isStr: true, s: v}
		}
	}
	for {
		t := m.seq(true)
		if t == 0 {
			break
		}
		// a stray %t / %e / %; at top level
		if t != ';' {
			m.bad = true
		}
	}
	return string(m.out), !m.bad
}
