//go:build verif && js

package tcell

import (
	"sort"
	"syscall/js"
)

// C19 — the WebAssembly backend renders faithfully and never wedges.
// The JavaScript side (webfiles/tcell.js) is replaced by recording stand-ins
// registered through syscall/js, so the same harness runs under the engine
// (syscall/js modelled) and natively under Node.

type h19Cell struct {
	s             string
	fg, bg, attrs int
	us, uc        int
	stamp         int
}

type h19Page struct {
	w, h    int
	cells   []h19Cell
	shows   int
	clears  int
	cx, cy  int
	blk     int
	oob     int // draw calls outside the page
	resizes int
	beeps   int
}

func h19Install(w, h int) *h19Page {
	p := &h19Page{w: w, h: h, cells: make([]h19Cell, w*h), blk: 1}
	g := js.Global()
	g.Set("drawCell", js.FuncOf(func(this js.Value, a []js.Value) interface{} {
		x, y := a[0].Int(), a[1].Int()
		if x < 0 || y < 0 || x >= p.w || y >= p.h {
			p.oob++
			return nil
		}
		p.cells[y*p.w+x] = h19Cell{s: a[2].String(), fg: a[3].Int(), bg: a[4].Int(), attrs: a[5].Int(), us: a[6].Int(), uc: a[7].Int(), stamp: p.blk}
		return nil
	}))
	g.Set("show", js.FuncOf(func(this js.Value, a []js.Value) interface{} {
		p.shows++
		p.blk++
		return nil
	}))
	g.Set("clearScreen", js.FuncOf(func(this js.Value, a []js.Value) interface{} {
		p.clears++
		for i := range p.cells {
			p.cells[i] = h19Cell{s: " ", stamp: p.blk}
		}
		return nil
	}))
	g.Set("showCursor", js.FuncOf(func(this js.Value, a []js.Value) interface{} {
		p.cx, p.cy = a[0].Int(), a[1].Int()
		return nil
	}))
	g.Set("setCursorStyle", js.FuncOf(func(this js.Value, a []js.Value) interface{} { return nil }))
	g.Set("setTitle", js.FuncOf(func(this js.Value, a []js.Value) interface{} { return nil }))
	g.Set("beep", js.FuncOf(func(this js.Value, a []js.Value) interface{} {
		p.beeps++
		return nil
	}))
	g.Set("resize", js.FuncOf(func(this js.Value, a []js.Value) interface{} {
		nw, nh := a[0].Int(), a[1].Int()
		nc := make([]h19Cell, nw*nh)
		for y := 0; y < nh && y < p.h; y++ {
			for x := 0; x < nw && x < p.w; x++ {
				nc[y*nw+x] = p.cells[y*p.w+x]
			}
		}
		p.cells, p.w, p.h = nc, nw, nh
		p.resizes++
		return nil
	}))
	return p
}

func h19Screen(w, h int) (Screen, *wScreen, *h19Page) {
	p := h19Install(80, 24)
	s, err := NewTerminfoScreen()
	if err != nil {
		vsymCutPath("constructor failed")
	}
	if err := s.Init(); err != nil {
		vsymCutPath("Init failed")
	}
	t := s.(*baseScreen).screenImpl.(*wScreen)
	s.SetSize(w, h)
	for k := 0; k < 12 && s.HasPendingEvent(); k++ {
		s.PollEvent()
	}
	return s, t, p
}

// xterm-like values for the 16 basic colours
var h19Basic = [16]int{0x000000, 0xcd0000, 0x00cd00, 0xcdcd00, 0x0000ee, 0xcd00cd, 0x00cdcd, 0xe5e5e5,
	0x7f7f7f, 0xff0000, 0x00ff00, 0xffff00, 0x5c5cff, 0xff00ff, 0x00ffff, 0xffffff}

func h19Color(c Color, def int) int {
	switch {
	case !c.Valid():
		return def
	case c.IsRGB():
		return int(c & 0xffffff)
	case c&^ColorValid < 16:
		return h19Basic[int(c&^ColorValid)]
	}
	v := int(c.Hex())
	if v < 0 {
		return def
	}
	return v
}

// H19_draw: for a draw history the page grid equals the logical contents and only changed cells are touched.
func H19_draw() {
	w, h := 3, 1
	if vsymChoice("grid", 2) == 1 {
		w, h = 2, 2
	}
	s, _, p := h19Screen(w, h)
	sp := &h08Spec{}
	sp.Resize(w, h)
	set := func(x, y int, r rune, comb []rune, st Style) {
		s.SetContent(x, y, r, comb, st)
		sp.SetContent(x, y, r, comb, st)
	}
	for y := 0; y < h; y++ {
		for x := 0; x < w; x++ {
			set(x, y, rune('a'+y*w+x), nil, StyleDefault)
		}
	}
	s.Show()
	before := make([]h08Cell, len(sp.cells))
	copy(before, sp.cells)
	blk := p.blk
	var scr Style
	styleOpen := false
	switch vsymChoice("op", 5) {
	case 0:
		x, y := vsymInt("x"), vsymInt("y")
		vsymAssume(vsymAnd(vsymAnd(x >= -1, x <= w), vsymAnd(y >= -1, y <= h)))
		var r rune
		switch vsymChoice("class", 3) {
		case 0:
			r = vsymRune("r")
			vsymAssume(vsymAnd(r >= 0x21, r <= 0x7e))
		case 1:
			r = 0x4e16
		case 2:
			r = 0x07
		}
		var comb []rune
		if vsymChoice("comb", 2) == 1 {
			comb = []rune{0x0301}
		}
		st := StyleDefault
		switch vsymChoice("style", 3) {
		case 1:
			st = st.Foreground(PaletteColor(int(vsymByte("fg")))).Background(PaletteColor(int(vsymByte("bg"))))
		case 2:
			st = st.Foreground(NewHexColor(int32(vsymUint32("rgb")&0xffffff))).Bold(vsymBool("bold")).Underline(UnderlineStyleCurly, PaletteColor(int(vsymByte("ulc"))))
		}
		set(x, y, r, comb, st)
	case 1:
		st := StyleDefault.Reverse(vsymBool("rev"))
		s.Fill('z', st)
		sp.Fill('z', st)
	case 2:
		scr = StyleDefault.Background(PaletteColor(int(vsymByte("sbg"))))
		s.SetStyle(scr)
		styleOpen = true
	case 3: // re-store identical content
		c := sp.cells[0]
		set(0, 0, c.main, c.comb, c.style)
	case 4:
	}
	final := vsymChoice("final", 2)
	if final == 0 {
		s.Show()
	} else {
		s.Sync()
		styleOpen = false
	}
	vsymAssert(p.oob == 0, "no draw call outside the page")
	for y := 0; y < h; y++ {
		covered := false
		for x := 0; x < w; x++ {
			if covered {
				covered = false
				continue
			}
			c := &sp.cells[y*w+x]
			got := p.cells[y*w+x]
			es := string(append([]rune{c.em}, c.comb...))
			vsymAssert(got.s == es, "page cell text is the rune and combining runes last set")
			st := c.style
			if st == StyleDefault {
				st = scr
			}
			if !(styleOpen && c.style == StyleDefault) {
				vsymAssert(got.fg == h19Color(st.fg, 0xe5e5e5) && got.bg == h19Color(st.bg, 0x000000), "page cell colours are the 24-bit values (xterm-like palette for the 16 basic colours)")
				vsymAssert(got.attrs == int(st.attrs) && got.us == int(st.ulStyle), "page cell attribute bits and underline style")
			}
			if final == 0 {
				b := &before[y*w+x]
				same := vsymAnd(b.main == c.main, vsymAnd(h08RunesEq(b.comb, c.comb), b.style == c.style))
				near := (x > 0 && (before[y*w+x-1].ew == 2 || sp.cells[y*w+x-1].ew == 2)) || b.ew == 2 || c.ew == 2
				if !near {
					vsymAssert(vsymImplies(same, got.stamp <= blk-1), "only changed cells are touched")
				}
			}
			covered = c.ew == 2 && x < w-1
		}
	}
	// an idle frame: a Show with nothing changed touches no page cell (also not the
	// column a wide rune covers)
	blk2 := p.blk
	s.Show()
	vsymAssert(p.oob == 0, "no draw call outside the page (idle frame)")
	for i := range p.cells {
		vsymAssert(p.cells[i].stamp <= blk2-1, "a Show with no change since the previous Show touches no cell")
	}
}

// H19_mouse: mouse callbacks become events with the right button and modifiers, only for enabled modes.
func H19_mouse() {
	s, _, _ := h19Screen(3, 1)
	flags := MouseFlags(vsymByte("flags") & 7)
	enabled := vsymBool("enabled")
	if enabled {
		if flags == 0 {
			s.EnableMouse()
			flags = MouseButtonEvents | MouseDragEvents | MouseMotionEvents
		} else {
			s.EnableMouse(flags)
		}
	} else {
		s.EnableMouse()
		s.DisableMouse()
		flags = 0
	}
	// enabled modes survive a Suspend/Resume cycle
	if vsymChoice("cycle", 2) == 1 {
		_ = s.Suspend()
		_ = s.Resume()
	}
	x, y := vsymInt("x"), vsymInt("y")
	vsymAssume(vsymAnd(vsymAnd(x >= 0, x < 100), vsymAnd(y >= 0, y < 100)))
	code := vsymChoice("code", 4) // 0 motion, 1 left, 2 middle, 3 right
	shift, alt, ctrl := vsymBool("shift"), vsymBool("alt"), vsymBool("ctrl")
	handler := "onMouseClick"
	if vsymChoice("move", 2) == 1 {
		handler = "onMouseMove"
	}
	js.Global().Call(handler, x, y, code, shift, alt, ctrl)
	want := false
	if handler == "onMouseClick" {
		want = flags&MouseButtonEvents != 0
	} else {
		want = flags&(MouseDragEvents|MouseMotionEvents) != 0
	}
	if code == 0 && flags&MouseMotionEvents == 0 {
		want = false // button-less motion only in motion mode
	}
	vsymAssert(s.HasPendingEvent() == want, "mouse callbacks are honoured exactly for the enabled mouse modes")
	if s.HasPendingEvent() {
		m, ok := s.PollEvent().(*EventMouse)
		vsymAssert(ok, "a mouse callback yields a mouse event")
		if ok {
			mx, my := m.Position()
			vsymAssert(mx == x && my == y, "mouse position")
			wantB := [4]ButtonMask{ButtonNone, Button1, Button3, Button2}[code]
			vsymAssert(m.Buttons() == wantB, "left is Button1, middle Button3, right Button2")
			var wm ModMask
			if shift {
				wm |= ModShift
			}
			if alt {
				wm |= ModAlt
			}
			if ctrl {
				wm |= ModCtrl
			}
			vsymAssert(m.Modifiers() == wm, "mouse modifiers")
		}
	}
}

type h19Key struct {
	name string
	key  Key
}

// KeyboardEvent.key names (W3C UI Events) and the tcell key each must become
var h19Keys = []h19Key{{"Enter", KeyEnter}, {"Tab", KeyTab}, {"Escape", KeyEsc}, {"Backspace", KeyBackspace}, {"Delete", KeyDelete},
	{"Insert", KeyInsert}, {"ArrowUp", KeyUp}, {"ArrowDown", KeyDown}, {"ArrowLeft", KeyLeft}, {"ArrowRight", KeyRight},
	{"Home", KeyHome}, {"End", KeyEnd}, {"PageUp", KeyPgUp}, {"PageDown", KeyPgDn}, {"F1", KeyF1}, {"F5", KeyF5}, {"F12", KeyF12}, {"Pause", KeyPause}}

// H19_key: key, paste and focus callbacks become the corresponding events.
func H19_key() {
	s, _, _ := h19Screen(3, 1)
	shift, alt, ctrl, meta := vsymBool("shift"), vsymBool("alt"), vsymBool("ctrl"), vsymBool("meta")
	var wm ModMask
	if shift {
		wm |= ModShift
	}
	if alt {
		wm |= ModAlt
	}
	if ctrl {
		wm |= ModCtrl
	}
	if meta {
		wm |= ModMeta
	}
	switch vsymChoice("kind", 5) {
	case 4: // Ctrl + character: the "Ctrl-x" rows of the key table (letters in either case)
		var names []string
		for n := range WebKeyNames {
			if len(n) == 6 && n[:5] == "Ctrl-" {
				names = append(names, n)
			}
		}
		sort.Strings(names)
		n := names[vsymChoice("ctrlkey", len(names))]
		ch := n[5]
		if ch >= 'a' && ch <= 'z' && vsymChoice("upper", 2) == 1 {
			ch -= 0x20
		}
		vsymNote("key", "Ctrl+"+string([]byte{ch}))
		js.Global().Call("onKeyEvent", string([]byte{ch}), false, false, true, false)
		vsymAssert(s.HasPendingEvent(), "a Ctrl+character callback yields an event")
		if s.HasPendingEvent() {
			e, ok := s.PollEvent().(*EventKey)
			want := WebKeyNames[n]
			if n[5] >= 'a' && n[5] <= 'z' {
				vsymAssert(want == KeyCtrlA+Key(n[5]-'a'), "the table maps Ctrl-letter to the Ctrl-letter key")
			}
			vsymAssert(ok && e.Key() == want && e.Modifiers() == ModCtrl, "Ctrl+character maps to the key the table gives for it, with Ctrl")
		}
	case 0:
		k := h19Keys[vsymChoice("key", len(h19Keys))]
		vsymNote("key", k.name)
		js.Global().Call("onKeyEvent", k.name, shift, alt, ctrl, meta)
		vsymAssert(s.HasPendingEvent(), "a key callback yields an event")
		if s.HasPendingEvent() {
			e, ok := s.PollEvent().(*EventKey)
			vsymAssert(ok && e.Key() == k.key, "KeyboardEvent.key name maps to the corresponding tcell key")
			vsymAssert(ok && e.Modifiers() == wm, "key modifiers")
		}
	case 1: // printable character
		c := vsymByte("ch")
		vsymAssume(vsymAnd(c >= 0x21, c <= 0x7e))
		js.Global().Call("onKeyEvent", string([]byte{c}), shift, alt, false, meta)
		if s.HasPendingEvent() {
			e, ok := s.PollEvent().(*EventKey)
			vsymAssert(ok && e.Key() == KeyRune && e.Rune() == rune(c), "a printable key arrives as its rune")
		} else {
			vsymAssert(false, "a printable key yields an event")
		}
	case 2: // paste bracket
		s.EnablePaste()
		if vsymChoice("cycle", 2) == 1 {
			_ = s.Suspend()
			_ = s.Resume()
		}
		start := vsymBool("start")
		js.Global().Call("onPaste", start)
		if s.HasPendingEvent() {
			e, ok := s.PollEvent().(*EventPaste)
			vsymAssert(ok && e.Start() == start, "paste callback becomes a paste event")
		} else {
			vsymAssert(false, "paste callback yields an event")
		}
	case 3: // focus
		s.EnableFocus()
		f := vsymBool("focused")
		js.Global().Call("onFocus", f)
		if s.HasPendingEvent() {
			e, ok := s.PollEvent().(*EventFocus)
			vsymAssert(ok && e.Focused == f, "focus callback becomes a focus event")
		} else {
			vsymAssert(false, "focus callback yields an event")
		}
	}
}

// H19_life: Suspend, Resume, SetSize, Show and Fini return without deadlock in any order (sequences <= 4).
func H19_life() {
	s, _, _ := h19Screen(3, 1)
	n := 1 + vsymChoice("len", vsymParam("maxlen", 4))
	for i := 0; i < n; i++ {
		switch vsymChoice("op"+string(rune('0'+i)), 5) {
		case 0:
			_ = s.Suspend()
		case 1:
			_ = s.Resume()
		case 2:
			s.SetSize(2+i, 1)
			for k := 0; k < 12 && s.HasPendingEvent(); k++ {
				s.PollEvent() // after Fini PollEvent may return nil without consuming
			}
		case 3:
			s.Show()
		case 4:
			s.Fini()
		}
	}
	// a call that returned with the screen lock held wedges the next locking call
	// (under the engine: the path ends blocked; natively: the Go runtime reports the deadlock)
	w, _ := s.Size()
	vsymAssert(w >= 0, "Suspend, Resume, SetSize, Show and Fini return in any order and leave the screen usable")
}
