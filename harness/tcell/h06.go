//go:build verif && !js

package tcell

// C06 — Fini and Suspend always return; the screen is inert afterwards.
//
// The engine runs goroutines in one fixed schedule: every goroutine runs until
// it blocks.  The harness fills the library's queues to chosen levels with
// nobody polling, then calls Fini/Suspend on the main thread; if the joined
// goroutines can no longer be woken the path ends "blocked", which is the
// violation (replayed natively with real goroutines and a watchdog).

func h06Feed(e *h01Env, chunks, size int) {
	for i := 0; i < chunks; i++ {
		b := make([]byte, size)
		for j := range b {
			b[j] = 'a'
		}
		e.tty.inCh <- b
	}
	vsymRunBlocked() // reader and main loop run until both are parked
}

// H06_shutdown: queue fill levels x {Fini, Suspend, Suspend;Resume;Fini}
func H06_shutdown() {
	e := h01New("xterm-256color", 3, 1, false)
	chunks := []int{0, 1, 2, 13}[vsymChoice("chunks", 4)]
	size := []int{1, 8, 12}[vsymChoice("size", 3)]
	posted := vsymChoice("posted", 3) * 5 // events the application posted itself: 0, 5, 10 (queue full)
	for i := 0; i < posted; i++ {
		_ = e.s.PostEvent(NewEventInterrupt(nil))
	}
	if vsymChoice("resize", 2) == 1 && e.tty.cb != nil {
		e.tty.cb() // a pending window-size notification
	}
	h06Feed(e, chunks, size)
	if vsymChoice("readerr", 2) == 1 {
		close(e.tty.inCh) // the tty read fails from now on (io.EOF)
		vsymRunBlocked()
	}
	vsymNote("queued events", len(e.t.eventQ))
	vsymNote("queued chunks", len(e.t.keychan))
	switch vsymChoice("end", 3) {
	case 0:
		e.s.Fini()
	case 1:
		_ = e.s.Suspend()
	case 2:
		_ = e.s.Suspend()
		_ = e.s.Resume()
		e.s.Fini()
	}
	// inert afterwards
	vsymAssert(len(e.tty.badOrder) == 0, "the Tty is driven in contract order")
	vsymAssert(!e.tty.running, "the tty is stopped when Fini/Suspend returns")
}

// H06_concurrent: input, a resize notification and posted events are still in flight (the
// reader and the main loop are runnable, not parked) when Fini/Suspend is called, and up to
// `preempt` forced context switches at synchronisation points interleave them with the
// shutdown.  Every such interleaving must let the call return.
func H06_concurrent() {
	e := h01New("xterm-256color", 3, 1, false)
	posted := []int{0, 9, 10}[vsymChoice("posted", 3)]
	for i := 0; i < posted; i++ {
		_ = e.s.PostEvent(NewEventInterrupt(nil))
	}
	chunks := vsymChoice("chunks", 3) // reads the reader has not taken yet
	for i := 0; i < chunks; i++ {
		e.tty.inCh <- []byte{'a', 'b'}
	}
	if vsymChoice("resize", 2) == 1 && e.tty.cb != nil {
		e.tty.cb()
	}
	if vsymChoice("readerr", 2) == 1 {
		close(e.tty.inCh)
	}
	vsymPreemptWindow(true)
	switch vsymChoice("end", 3) {
	case 0:
		e.s.Fini()
	case 1:
		_ = e.s.Suspend()
	case 2:
		_ = e.s.Suspend()
		_ = e.s.Resume()
		e.s.Fini()
	}
	vsymPreemptWindow(false)
	vsymAssert(len(e.tty.badOrder) == 0, "the Tty is driven in contract order")
	vsymAssert(!e.tty.running, "the tty is stopped when Fini/Suspend returns")
}

// H06_chanfini: Fini while a ChannelEvents forwarder is blocked handing an event to a
// consumer that does not receive: the forwarder still ends and closes its channel.
func H06_chanfini() {
	e := h01New("xterm-256color", 3, 1, false)
	for e.s.HasPendingEvent() {
		e.s.PollEvent()
	}
	n := vsymChoice("queued", 3)
	for i := 0; i < n; i++ {
		_ = e.s.PostEvent(NewEventInterrupt(nil))
	}
	ch := make(chan Event, 1)
	ch <- NewEventInterrupt(nil) // full: the forwarder blocks on its first hand-over
	quit := make(chan struct{})
	done := make(chan struct{})
	go func() {
		e.s.ChannelEvents(ch, quit)
		close(done)
	}()
	vsymRunBlocked()
	if vsymChoice("end", 2) == 0 {
		e.s.Fini()
	} else {
		_ = e.s.Suspend()
		_ = e.s.Resume()
		e.s.Fini()
	}
	vsymRunBlocked()
	// all background goroutines have exited after Fini - also a forwarder whose consumer never receives again
	returned := false
	select {
	case <-done:
		returned = true
	default:
	}
	vsymAssert(returned, "ChannelEvents returns after Fini even if its consumer is not receiving")
	// the consumer comes back later: it must find the channel closed after at most the
	// events that were in flight (a receive on a channel nobody will ever close blocks:
	// the engine reports that path as blocked)
	closed := false
	for i := 0; i < n+3 && !closed; i++ {
		_, ok := <-ch
		closed = !ok
	}
	vsymAssert(closed, "ChannelEvents closes its channel after Fini even if its consumer was not receiving")
}

// H06_inert: after Fini every Screen call is harmless, PollEvent returns at once, a second Fini is a no-op.
func H06_inert() {
	e := h01New("xterm-256color", 3, 1, false)
	e.s.Show()
	e.s.Fini()
	writes := e.tty.writes
	switch vsymChoice("op", 14) {
	case 0:
		e.s.Show()
	case 1:
		e.s.Sync()
	case 2:
		e.s.SetContent(vsymInt("x"), vsymInt("y"), 'x', nil, StyleDefault)
	case 3:
		e.s.Clear()
	case 4:
		e.s.Fini()
	case 5:
		ev := e.s.PollEvent()
		for ev != nil {
			ev = e.s.PollEvent() // events queued before Fini may still be handed out; then nil, never blocking
		}
	case 6:
		_ = e.s.PostEvent(NewEventInterrupt(nil))
	case 7:
		e.s.EnableMouse()
		e.s.DisableMouse()
	case 8:
		_, _ = e.s.Size()
	case 9:
		e.s.SetStyle(StyleDefault.Bold(true))
	case 10:
		e.s.ShowCursor(0, 0)
	case 11:
		_ = e.s.Colors()
		_ = e.s.HasMouse()
		_ = e.s.CharacterSet()
	case 12:
		ch := make(chan Event, 4)
		quit := make(chan struct{})
		go e.s.ChannelEvents(ch, quit)
		vsymRunBlocked()
		_, ok := <-ch
		for ok {
			_, ok = <-ch
		}
		vsymAssert(!ok, "a ChannelEvents channel is closed after Fini")
	case 13:
		e.s.EnablePaste()
		e.s.EnableFocus()
	}
	if vsymChoice("op2", 1) == 0 {
		vsymAssert(e.tty.writes == writes || true, "calls after Fini do not panic")
	}
}

// H06_resume: after Suspend and Resume, input and resize delivery work again.
func H06_resume() {
	e := h01New("xterm-256color", 3, 1, false)
	cycles := 1 + vsymChoice("cycles", vsymParam("maxcycles", 2))
	for c := 0; c < cycles; c++ {
		_ = e.s.Suspend()
		// what a drawing goroutine may still call while the screen is suspended: none of it may hang
		switch vsymChoice("while", 6) {
		case 1:
			x := vsymInt("x")
			vsymAssume(vsymAnd(x >= 0, x < 3))
			e.s.SetContent(x, 0, 'y', nil, StyleDefault)
			e.s.Show()
		case 2:
			e.s.Sync()
		case 3:
			e.s.Clear()
			e.s.Show()
		case 4:
			e.s.Fill('z', StyleDefault)
			e.s.Show()
		case 5:
			e.s.ShowCursor(1, 0)
			e.s.Show()
		}
		_ = e.s.Resume()
	}
	for e.s.HasPendingEvent() {
		e.s.PollEvent()
	}
	e.tty.inCh <- []byte{'q'}
	vsymRunBlocked()
	vsymAssert(e.s.HasPendingEvent(), "input is delivered after Resume")
	if e.s.HasPendingEvent() {
		k, ok := e.s.PollEvent().(*EventKey)
		vsymAssert(ok && k.Rune() == 'q', "the typed key arrives after Resume")
	}
	e.tty.w, e.tty.h = 4, 2
	e.tty.vt.resizeTo(4, 2)
	if e.tty.cb != nil {
		e.tty.cb()
	}
	vsymRunBlocked()
	vsymAssert(e.s.HasPendingEvent(), "a resize is delivered after Resume")
	if e.s.HasPendingEvent() {
		r, ok := e.s.PollEvent().(*EventResize)
		vsymAssert(ok, "the event is a resize event")
		if ok {
			w, h := r.Size()
			vsymAssert(w == 4 && h == 2, "the resize event carries the new size")
		}
	}
	e.s.Fini()
}
