//go:build verif && !js

package tcell

// Engine self-tests: H00_must_fail has a false assertion whose only
// counterexample is one 24-bit value; the pipeline must find it, replay it
// natively and report it (used by `gosym selftest`, never by a property).
func H00_must_fail() {
	r, g, b := vsymInt32("r"), vsymInt32("g"), vsymInt32("b")
	vsymAssume(r >= 0 && r < 256 && g >= 0 && g < 256 && b >= 0 && b < 256)
	vsymAssert(NewRGBColor(r, g, b).Hex() != 0x123456, "selftest: no colour has hex 0x123456 (false)")
}

func H00_must_panic() {
	i := vsymInt("i")
	a := []int{1, 2, 3}
	vsymAssume(i >= 0 && i <= 3)
	_ = a[i]
}
