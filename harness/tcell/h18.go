//go:build verif && !js

package tcell

import (
	"unicode/utf8"
)

// C18 — SimulationScreen is a faithful test double.

func h18New(charset string, w, h int) (SimulationScreen, *simscreen) {
	s := NewSimulationScreen(charset)
	if err := s.Init(); err != nil {
		vsymCutPath("Init failed for " + charset)
	}
	s.SetSize(w, h)
	return s, s.(*simscreen)
}

// H18_inject: any valid text in the charset injected with InjectKeyBytes comes
// out of PollEvent rune for rune, multi-byte characters included.
func H18_inject() {
	n := vsymParam("n", 3)
	s, _ := h18New("UTF-8", 3, 1)
	b := vsymBytes("b", n)
	want, ok := h11Decode(b)
	vsymAssume(ok)
	for _, r := range want {
		vsymAssume(vsymAnd(r >= 0x20, vsymAnd(r != 0x7f, r != 0xfffd)))
	}
	vsymAssume(len(want) <= 8)
	for s.HasPendingEvent() {
		s.PollEvent() // the initial resize event
	}
	res := s.InjectKeyBytes(b)
	vsymAssert(res, "InjectKeyBytes accepts valid text in the charset (a multi-byte character may come last)")
	for i := range want {
		vsymAssert(s.HasPendingEvent(), "every injected character is delivered")
		if !s.HasPendingEvent() {
			return
		}
		ev := s.PollEvent()
		ek, isKey := ev.(*EventKey)
		vsymAssert(isKey && ek.Key() == KeyRune && ek.Rune() == want[i], "injected character i comes out as rune key event i")
	}
	vsymAssert(!s.HasPendingEvent(), "nothing else is delivered")
}

// H18_events: InjectKey / InjectMouse come out unchanged and in order.
func H18_events() {
	s, _ := h18New("UTF-8", 3, 1)
	for s.HasPendingEvent() {
		s.PollEvent()
	}
	k := Key(vsymInt16("key"))
	r := vsymRune("r")
	mod := ModMask(vsymInt16("mod"))
	vsymAssume(vsymOr(k != KeyRune, vsymAnd(r >= 0x20, r != 0x7f))) // NewEventKey normalises control runes (C03)
	x, y := vsymInt("x"), vsymInt("y")
	btn := ButtonMask(vsymInt16("btn"))
	s.InjectKey(k, r, mod)
	s.InjectMouse(x, y, btn, mod)
	s.InjectKey(KeyEnter, 0, ModNone)
	e1, ok1 := s.PollEvent().(*EventKey)
	vsymAssert(ok1 && e1.Key() == k && e1.Rune() == r && e1.Modifiers() == mod, "injected key comes out unchanged")
	e2, ok2 := s.PollEvent().(*EventMouse)
	if ok2 {
		mx, my := e2.Position()
		vsymAssert(mx == x && my == y && e2.Buttons() == btn && e2.Modifiers() == mod, "injected mouse event comes out unchanged")
	}
	vsymAssert(ok2, "second event is the mouse event")
	e3, ok3 := s.PollEvent().(*EventKey)
	vsymAssert(ok3 && e3.Key() == KeyEnter, "events come out in injection order")
}

// expected simulation cell for a specification cell
func h18Expect(sp *h08Spec, x, y int, style Style) ([]rune, Style) {
	c := &sp.cells[y*sp.w+x]
	st := c.style
	if st == StyleDefault {
		st = style
	}
	if c.ew == 2 && x == sp.w-1 {
		return []rune{' '}, st
	}
	return append([]rune{c.em}, c.comb...), st
}

// H18_draw: after Show/Sync the reported physical cells hold what was last set.
func H18_draw() {
	var w, h int
	if vsymChoice("grid", 2) == 0 {
		w, h = 3, 1
	} else {
		w, h = 2, 2
	}
	ascii := vsymChoice("charset", 2) == 1
	charset := "UTF-8"
	if ascii {
		charset = "US-ASCII"
	}
	s, ss := h18New(charset, w, h)
	sp := &h08Spec{}
	sp.Resize(w, h)
	var scrStyle Style
	styleOpen := false // see h01Env.styleOpen
	set := func(x, y int, r rune, comb []rune, st Style) {
		s.SetContent(x, y, r, comb, st)
		sp.SetContent(x, y, r, comb, st)
	}
	for y := 0; y < h; y++ {
		for x := 0; x < w; x++ {
			set(x, y, rune('a'+y*w+x), nil, StyleDefault)
		}
	}
	s.Show()
	e := &h01Env{w: w, h: h}
	switch vsymChoice("op", 5) {
	case 0:
		x, y := vsymInt("x"), vsymInt("y")
		vsymAssume(vsymAnd(vsymAnd(x >= -1, x <= w), vsymAnd(y >= -1, y <= h)))
		r := h01Rune("r", 5)
		if r == 'x' {
			r = 0xe9 // class 4: Latin-1 letter, not representable in US-ASCII, no fallback registered
		}
		var comb []rune
		if vsymChoice("comb", 2) == 1 {
			comb = []rune{0x0301}
		}
		st := StyleDefault
		if vsymChoice("style", 2) == 1 {
			st = st.Foreground(Color(vsymUint64("fg"))).Background(PaletteColor(int(vsymByte("bg")))).Bold(vsymBool("bold")).Url("u")
		}
		set(x, y, r, comb, st)
	case 1:
		r := h01Rune("r", 2)
		st := StyleDefault.Reverse(vsymBool("rev"))
		s.Fill(r, st)
		sp.Fill(r, st)
	case 2:
		scrStyle = StyleDefault.Foreground(PaletteColor(int(vsymByte("sfg"))))
		s.SetStyle(scrStyle)
		styleOpen = true
	case 3:
		cx, cy := vsymInt("cx"), vsymInt("cy")
		s.ShowCursor(cx, cy)
		e.curX, e.curY = cx, cy
		gx, gy, vis := s.GetCursor()
		vsymAssert(gx == cx && gy == cy, "GetCursor reflects ShowCursor")
		vsymAssert(vis == vsymAnd(vsymAnd(cx >= 0, cx < w), vsymAnd(cy >= 0, cy < h)), "cursor is visible iff it is on the screen")
	case 4:
	}
	if vsymChoice("final", 2) == 0 {
		s.Show()
	} else {
		s.Sync()
		styleOpen = false
	}
	cells, cw, ch := s.GetContents()
	vsymAssert(cw == w && ch == h && len(cells) == w*h, "GetContents reports the physical size")
	for y := 0; y < h; y++ {
		covered := false
		for x := 0; x < w; x++ {
			if covered {
				covered = false
				continue
			}
			er, est := h18Expect(sp, x, y, scrStyle)
			got := cells[y*w+x]
			vsymAssert(h08RunesEq(got.Runes, er), "physical cell holds the runes last set (blank for a wide rune in the last column)")
			if !(styleOpen && sp.cells[y*w+x].style == StyleDefault) {
				vsymAssert(got.Style == est, "physical cell holds the resolved style last set")
			}
			// Bytes: the encoding of the runes in the simulation's charset, under the real screen's fallback rules
			var eb []byte
			for k, r := range er {
				if ascii && r >= 0x80 {
					if fb, ok := RuneFallbacks[r]; ok {
						eb = append(eb, fb...)
					} else if k == 0 {
						eb = append(eb, '?')
					}
					continue
				}
				var tmp [4]byte
				n := utf8.EncodeRune(tmp[:], r)
				eb = append(eb, tmp[:n]...)
			}
			vsymAssert(string(got.Bytes) == string(eb), "Bytes is the encoding of the runes in the simulation's character set")
			covered = sp.cells[y*w+x].ew == 2 && x < w-1
		}
	}
	_ = ss
}

// H18_resize: SetSize preserves the overlapping region and yields a resize event with the new size.
func H18_resize() {
	s, _ := h18New("UTF-8", 3, 2)
	for y := 0; y < 2; y++ {
		for x := 0; x < 3; x++ {
			s.SetContent(x, y, rune('a'+y*3+x), nil, StyleDefault)
		}
	}
	s.Show()
	for s.HasPendingEvent() {
		s.PollEvent()
	}
	// a visible cursor before the size change
	cx0, cy0 := vsymChoice("cx0", 3), vsymChoice("cy0", 2)
	s.ShowCursor(cx0, cy0)
	s.Show()
	gx, gy, gv := s.GetCursor()
	vsymAssert(gx == cx0 && gy == cy0 && gv, "the cursor query reflects ShowCursor")
	nw, nh := 1+vsymChoice("nw", 4), 1+vsymChoice("nh", 3)
	s.SetSize(nw, nh)
	if vsymChoice("how", 2) == 0 {
		s.Show()
	} else {
		s.Sync()
	}
	gx, gy, gv = s.GetCursor()
	vsymAssert(gv == (gx >= 0 && gy >= 0 && gx < nw && gy < nh), "after SetSize the cursor is reported visible exactly when its reported position is on the screen")
	cx1, cy1 := vsymInt("cx1"), vsymInt("cy1")
	vsymAssume(vsymAnd(vsymAnd(cx1 >= -1, cx1 <= 5), vsymAnd(cy1 >= -1, cy1 <= 4)))
	s.ShowCursor(cx1, cy1)
	s.Show()
	gx, gy, gv = s.GetCursor()
	in := vsymAnd(vsymAnd(cx1 >= 0, cx1 < nw), vsymAnd(cy1 >= 0, cy1 < nh))
	vsymAssert(gv == in, "the cursor is visible exactly when ShowCursor put it on the (resized) screen")
	if in {
		vsymAssert(gx == cx1 && gy == cy1, "the cursor query reports the position given to ShowCursor")
	}
	cells, cw, ch := s.GetContents()
	vsymAssert(cw == nw && ch == nh, "SetSize sets the physical size")
	for y := 0; y < nh && y < 2; y++ {
		for x := 0; x < nw && x < 3; x++ {
			c := cells[y*nw+x]
			vsymAssert(len(c.Runes) == 1 && c.Runes[0] == rune('a'+y*3+x), "SetSize preserves the overlapping region")
		}
	}
	if nw != 3 || nh != 2 {
		vsymAssert(s.HasPendingEvent(), "a size change produces a resize event")
		if s.HasPendingEvent() {
			ev, ok := s.PollEvent().(*EventResize)
			vsymAssert(ok, "the event after SetSize is a resize event")
			if ok {
				ew, eh := ev.Size()
				vsymAssert(ew == nw && eh == nh, "the resize event carries the new size")
			}
		}
	}
}

// H18_inject_sb: InjectKeyBytes in every single-byte legacy charset: any defined printable
// byte >= 0x80, last in the buffer or followed by a letter, comes out as its rune.
func H18_inject_sb() {
	cs := h11SB[vsymChoice("charset", len(h11SB))]
	vsymNote("charset", cs.name)
	RegisterEncoding(cs.name, cs.enc)
	s, _ := h18New(cs.name, 3, 1)
	b := vsymByte("b")
	vsymAssume(b >= 0x80)
	dst := make([]byte, 8)
	n, nsrc, err := cs.enc.NewDecoder().Transform(dst, []byte{b}, true)
	vsymAssume(err == nil && n > 0 && nsrc == 1)
	want, _ := utf8.DecodeRune(dst[:n])
	vsymAssume(vsymAnd(want != utf8.RuneError, want >= 0xa0))
	in := []byte{'x', b}
	last := vsymChoice("last", 2) == 1
	if !last {
		in = append(in, 'y')
	}
	h18Inject(s, in, []rune{'x', want, 'y'}[:len(in)])
}

// H18_inject_mb: InjectKeyBytes in the double-byte legacy charsets: any two-byte character
// (lead byte from a window, as in H11_legacy), last in the buffer or followed by a letter.
func H18_inject_mb() {
	cs := h11MB[vsymChoice("charset", len(h11MB))]
	vsymNote("charset", cs.name)
	RegisterEncoding(cs.name, cs.enc)
	span := vsymParam("leadspan", 2)
	ll := cs.leadList()
	nwin := (len(ll) + span - 1) / span
	maxwin := vsymParam("leadwins", 3)
	w := vsymChoice("leadwin", maxwin)
	if maxwin < nwin {
		w = w * nwin / maxwin
	} else {
		w = w % nwin
	}
	s, _ := h18New(cs.name, 3, 1)
	lead, trail := vsymByte("lead"), vsymByte("trail")
	in := false
	for i := w * span; i < (w+1)*span && i < len(ll); i++ {
		in = vsymOr(in, int(lead) == ll[i])
	}
	vsymAssume(in)
	vsymAssume(trail >= 0x40)
	dst := make([]byte, 8)
	n, nsrc, err := cs.enc.NewDecoder().Transform(dst, []byte{lead, trail}, true)
	vsymAssume(err == nil && n > 0 && nsrc == 2)
	want, _ := utf8.DecodeRune(dst[:n])
	vsymAssume(want != utf8.RuneError && want >= 0x80)
	buf := []byte{'x', lead, trail}
	last := vsymChoice("last", 2) == 1
	if !last {
		buf = append(buf, 'y')
	}
	h18Inject(s, buf, []rune{'x', want, 'y'}[:len(buf)-1])
}

func h18Inject(s SimulationScreen, in []byte, want []rune) {
	for s.HasPendingEvent() {
		s.PollEvent()
	}
	res := s.InjectKeyBytes(in)
	vsymAssert(res, "InjectKeyBytes accepts valid text in the charset (a multi-byte character may come last)")
	for i := range want {
		vsymAssert(s.HasPendingEvent(), "every injected character is delivered")
		if !s.HasPendingEvent() {
			return
		}
		ek, isKey := s.PollEvent().(*EventKey)
		vsymAssert(isKey && ek.Key() == KeyRune && ek.Rune() == want[i], "injected character i comes out as rune key event i")
	}
	vsymAssert(!s.HasPendingEvent(), "nothing else is delivered")
}
