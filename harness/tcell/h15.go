//go:build verif && !js

package tcell

import (
	"bytes"
	"strings"
	"time"

	"github.com/gdamore/tcell/v2/terminfo"
)

// C15 — TPuts strips only padding; TGoto and TColor are right for every terminal.

func h15IsDigit(b byte) bool { return vsymAnd(b >= '0', b <= '9') }

// h15Number parses a non-empty decimal number at s[i:], returning the value and the next index (ok=false if none).
func h15Number(s string, i int) (int, int, bool) {
	v, n := 0, 0
	for i < len(s) && h15IsDigit(s[i]) {
		v = v*10 + int(s[i]-'0')
		i++
		n++
	}
	return v, i, n > 0
}

// H15_goto: the cursor-addressing string decodes, under the terminal's own
// addressing convention, to exactly (col,row).
func H15_goto() {
	ents := terminfo.VerifEntries()
	ti := ents[vsymChoice("term", len(ents))]
	vsymNote("term", ti.Name)
	col, row := vsymInt("col"), vsymInt("row")
	cup := ti.SetCursor
	vsymAssert(cup != "", "every entry has cursor addressing")
	switch {
	case strings.HasPrefix(cup, "\x1b[%i%p1%d;%p2%dH"):
		// ANSI CUP: ESC [ row+1 ; col+1 H   (1-based decimal), possibly followed by a padding spec
		max := vsymParam("maxcoord", 300)
		vsymAssume(col >= 0 && col <= max && row >= 0 && row <= max)
		s := ti.TGoto(col, row)
		tail := cup[len("\x1b[%i%p1%d;%p2%dH"):]
		vsymAssert(strings.HasPrefix(s, "\x1b["), "CUP starts with CSI")
		r, i, ok := h15Number(s, 2)
		vsymAssert(ok, "CUP has a row parameter")
		vsymAssert(i < len(s) && s[i] == ';', "CUP parameters are separated by ';'")
		c, j, ok2 := h15Number(s, i+1)
		vsymAssert(ok2, "CUP has a column parameter")
		vsymAssert(j < len(s) && s[j] == 'H', "CUP ends with H")
		vsymAssert(s[j+1:] == tail, "only the entry's padding follows the CUP final")
		vsymAssert(r == row+1, "CUP row parameter is row+1")
		vsymAssert(c == col+1, "CUP column parameter is col+1")
		vsymAssert(s[2] != '0' && s[i+1] != '0', "CUP parameters have no leading zero")
	case strings.HasPrefix(cup, "\x1bY%p1%' '%+%c%p2%' '%+%c"), strings.HasPrefix(cup, "\x1b=%p1%' '%+%c%p2%' '%+%c"):
		// VT52 / Wyse: ESC Y|= (row+32) (col+32) as single bytes; expressible range 0..222
		vsymAssume(col >= 0 && col <= 222 && row >= 0 && row <= 222)
		s := ti.TGoto(col, row)
		vsymAssert(len(s) == 4 && s[0] == 0x1b && s[1] == cup[1], "offset-32 addressing is ESC, letter, row byte, column byte")
		vsymAssert(int(s[2]) == row+32, "row byte is row+32")
		vsymAssert(int(s[3]) == col+32, "column byte is col+32")
	case strings.HasPrefix(cup, "\x1b&a%p1%dy%p2%dC"):
		// HP: ESC & a <row> y <col> C   (0-based decimal)
		max := vsymParam("maxcoord", 300)
		vsymAssume(col >= 0 && col <= max && row >= 0 && row <= max)
		s := ti.TGoto(col, row)
		vsymAssert(strings.HasPrefix(s, "\x1b&a"), "HP addressing starts with ESC & a")
		r, i, ok := h15Number(s, 3)
		vsymAssert(ok && i < len(s) && s[i] == 'y', "HP row parameter then 'y'")
		c, j, ok2 := h15Number(s, i+1)
		vsymAssert(ok2 && j == len(s)-1 && s[j] == 'C', "HP column parameter then 'C'")
		vsymAssert(r == row && c == col, "HP parameters are row, col")
	default:
		vsymAssert(false, "unknown cursor addressing convention: "+cup)
	}
}

// h15SGR decodes a string of SGR sequences into (fg, bg) palette indices (-1 = not selected).
// ok=false if the string is not a sequence of well-formed CSI ... m.
func h15SGR(s string) (fg, bg int, ok bool) {
	fg, bg = -1, -1
	i := 0
	for i < len(s) {
		if !(i+1 < len(s) && s[i] == 0x1b && s[i+1] == '[') {
			return fg, bg, false
		}
		i += 2
		var ps []int
		for {
			v, j, has := h15Number(s, i)
			if !has {
				return fg, bg, false
			}
			ps = append(ps, v)
			i = j
			if i >= len(s) {
				return fg, bg, false
			}
			if s[i] == ';' || s[i] == ':' { // ':' separates sub-parameters (ITU T.416 form, e.g. foot's 48:5:n)
				i++
				continue
			}
			if s[i] == 'm' {
				i++
				break
			}
			return fg, bg, false
		}
		for k := 0; k < len(ps); k++ {
			p := ps[k]
			switch {
			case p >= 30 && p <= 37:
				fg = p - 30
			case p >= 40 && p <= 47:
				bg = p - 40
			case p >= 90 && p <= 97:
				fg = p - 90 + 8
			case p >= 100 && p <= 107:
				bg = p - 100 + 8
			case (p == 38 || p == 48) && k+2 < len(ps) && ps[k+1] == 5:
				if p == 38 {
					fg = ps[k+2]
				} else {
					bg = ps[k+2]
				}
				k += 2
			default:
				return fg, bg, false
			}
		}
	}
	return fg, bg, true
}

// H15_color: TColor(fg,bg) selects exactly those palette entries.
func H15_color() {
	ents := terminfo.VerifEntries()
	ti := ents[vsymChoice("term", len(ents))]
	vsymNote("term", ti.Name)
	fg, bg := vsymInt("fg"), vsymInt("bg")
	vsymAssume(fg >= -1 && fg <= 300 && bg >= -1 && bg <= 300)
	s := ti.TColor(fg, bg)
	if ti.Colors == 0 {
		vsymAssert(s == "", "colourless terminal: TColor is empty")
		return
	}
	efg, ebg := fg, bg
	if ti.Colors == 8 {
		if efg > 7 && efg < 16 {
			efg -= 8
		}
		if ebg > 7 && ebg < 16 {
			ebg -= 8
		}
	}
	if efg < 0 || efg >= ti.Colors {
		efg = -1
	}
	if ebg < 0 || ebg >= ti.Colors {
		ebg = -1
	}
	vsymNote("tcolor", s)
	dfg, dbg, ok := h15SGR(s)
	vsymAssert(ok, "TColor output is a sequence of well-formed SGR controls")
	vsymAssert(dfg == efg, "TColor selects the requested foreground (bright folded on 8-colour terminals, out-of-range elided)")
	vsymAssert(dbg == ebg, "TColor selects the requested background (bright folded on 8-colour terminals, out-of-range elided)")
}

// ---- TPuts

type h15Writer struct {
	bytes.Buffer
}

func h15InAlphabet(b byte) bool {
	return vsymOr(vsymOr(vsymOr(b == '$', b == '<'), vsymOr(b == '>', b == '.')),
		vsymOr(vsymOr(b == '*', b == '/'), vsymOr(b == 'a', h15IsDigit(b))))
}

// h15Spec: is val a well-formed padding spec  [0-9]+(\.[0-9]+)?[*/]{0,2} or \.[0-9]+[*/]{0,2}; returns the delay in ns
func h15Spec(val string) (ok bool, ns int64) {
	i := 0
	num := int64(0)
	unit := int64(time.Millisecond)
	n1 := 0
	for i < len(val) && h15IsDigit(val[i]) {
		num = num*10 + int64(val[i]-'0')
		i++
		n1++
	}
	n2 := 0
	if i < len(val) && val[i] == '.' {
		i++
		for i < len(val) && h15IsDigit(val[i]) {
			num = num*10 + int64(val[i]-'0')
			unit /= 10
			i++
			n2++
		}
		if n2 == 0 {
			return false, 0
		}
	}
	if n1 == 0 && n2 == 0 {
		return false, 0
	}
	flags := 0
	for i < len(val) && (val[i] == '*' || val[i] == '/') {
		i++
		flags++
	}
	if i != len(val) || flags > 2 {
		return false, 0
	}
	return true, num * unit
}

// H15_tputs: TPuts writes exactly the input minus every well-formed padding
// spec, an unterminated spec verbatim, and sleeps the specified time iff PadChar is set.
func H15_tputs() {
	n := vsymChoice("len", vsymParam("maxlen", 6)+1)
	s := vsymString("s", n)
	for i := 0; i < n; i++ {
		vsymAssume(h15InAlphabet(s[i]))
	}
	ti := &terminfo.Terminfo{}
	padded := vsymChoice("padchar", 2) == 1
	if padded {
		ti.PadChar = "\x00"
	}
	var w h15Writer
	ti.TPuts(&w, s)
	got := w.String()

	// reference
	var want []byte
	var total int64
	rest := s
	for {
		beg := -1
		for i := 0; i+1 < len(rest); i++ {
			if rest[i] == '$' && rest[i+1] == '<' {
				beg = i
				break
			}
		}
		if beg < 0 {
			want = append(want, rest...)
			break
		}
		want = append(want, rest[:beg]...)
		end := -1
		for i := beg + 2; i < len(rest); i++ {
			if rest[i] == '>' {
				end = i
				break
			}
		}
		if end < 0 {
			want = append(want, rest[beg:]...) // unterminated: verbatim
			break
		}
		ok, ns := h15Spec(rest[beg+2 : end])
		vsymAssume(ok) // terminated but malformed specs: the property is silent
		total += ns
		rest = rest[end+1:]
	}
	vsymAssert(got == string(want), "TPuts writes the input minus every well-formed padding spec (unterminated written verbatim)")
	if padded {
		vsymAssert(vsymSleepTotal() == total, "with a pad character TPuts sleeps the sum of the specified delays")
	} else {
		vsymAssert(vsymSleepCount() == 0, "without a pad character TPuts never sleeps")
	}
}
