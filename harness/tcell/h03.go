//go:build verif && !js

package tcell

import (
	"bytes"
	"strings"

	"github.com/gdamore/tcell/v2/terminfo"
)

// C03 — every key sequence of every terminal decodes to its key and modifiers.

type h03Cap struct {
	seq string
	key Key
	mod ModMask
}

// h03Caps: the key capabilities of a description, written out from the Terminfo
// fields (independent of prepareKeys).
func h03Caps(ti *terminfo.Terminfo) []h03Cap {
	all := []h03Cap{
		{ti.KeyBackspace, KeyBackspace, ModNone},
		{ti.KeyF1, KeyF1, ModNone},
		{ti.KeyF2, KeyF2, ModNone},
		{ti.KeyF3, KeyF3, ModNone},
		{ti.KeyF4, KeyF4, ModNone},
		{ti.KeyF5, KeyF5, ModNone},
		{ti.KeyF6, KeyF6, ModNone},
		{ti.KeyF7, KeyF7, ModNone},
		{ti.KeyF8, KeyF8, ModNone},
		{ti.KeyF9, KeyF9, ModNone},
		{ti.KeyF10, KeyF10, ModNone},
		{ti.KeyF11, KeyF11, ModNone},
		{ti.KeyF12, KeyF12, ModNone},
		{ti.KeyF13, KeyF13, ModNone},
		{ti.KeyF14, KeyF14, ModNone},
		{ti.KeyF15, KeyF15, ModNone},
		{ti.KeyF16, KeyF16, ModNone},
		{ti.KeyF17, KeyF17, ModNone},
		{ti.KeyF18, KeyF18, ModNone},
		{ti.KeyF19, KeyF19, ModNone},
		{ti.KeyF20, KeyF20, ModNone},
		{ti.KeyF21, KeyF21, ModNone},
		{ti.KeyF22, KeyF22, ModNone},
		{ti.KeyF23, KeyF23, ModNone},
		{ti.KeyF24, KeyF24, ModNone},
		{ti.KeyF25, KeyF25, ModNone},
		{ti.KeyF26, KeyF26, ModNone},
		{ti.KeyF27, KeyF27, ModNone},
		{ti.KeyF28, KeyF28, ModNone},
		{ti.KeyF29, KeyF29, ModNone},
		{ti.KeyF30, KeyF30, ModNone},
		{ti.KeyF31, KeyF31, ModNone},
		{ti.KeyF32, KeyF32, ModNone},
		{ti.KeyF33, KeyF33, ModNone},
		{ti.KeyF34, KeyF34, ModNone},
		{ti.KeyF35, KeyF35, ModNone},
		{ti.KeyF36, KeyF36, ModNone},
		{ti.KeyF37, KeyF37, ModNone},
		{ti.KeyF38, KeyF38, ModNone},
		{ti.KeyF39, KeyF39, ModNone},
		{ti.KeyF40, KeyF40, ModNone},
		{ti.KeyF41, KeyF41, ModNone},
		{ti.KeyF42, KeyF42, ModNone},
		{ti.KeyF43, KeyF43, ModNone},
		{ti.KeyF44, KeyF44, ModNone},
		{ti.KeyF45, KeyF45, ModNone},
		{ti.KeyF46, KeyF46, ModNone},
		{ti.KeyF47, KeyF47, ModNone},
		{ti.KeyF48, KeyF48, ModNone},
		{ti.KeyF49, KeyF49, ModNone},
		{ti.KeyF50, KeyF50, ModNone},
		{ti.KeyF51, KeyF51, ModNone},
		{ti.KeyF52, KeyF52, ModNone},
		{ti.KeyF53, KeyF53, ModNone},
		{ti.KeyF54, KeyF54, ModNone},
		{ti.KeyF55, KeyF55, ModNone},
		{ti.KeyF56, KeyF56, ModNone},
		{ti.KeyF57, KeyF57, ModNone},
		{ti.KeyF58, KeyF58, ModNone},
		{ti.KeyF59, KeyF59, ModNone},
		{ti.KeyF60, KeyF60, ModNone},
		{ti.KeyF61, KeyF61, ModNone},
		{ti.KeyF62, KeyF62, ModNone},
		{ti.KeyF63, KeyF63, ModNone},
		{ti.KeyF64, KeyF64, ModNone},
		{ti.KeyInsert, KeyInsert, ModNone}, {ti.KeyDelete, KeyDelete, ModNone}, {ti.KeyHome, KeyHome, ModNone},
		{ti.KeyEnd, KeyEnd, ModNone}, {ti.KeyUp, KeyUp, ModNone}, {ti.KeyDown, KeyDown, ModNone},
		{ti.KeyLeft, KeyLeft, ModNone}, {ti.KeyRight, KeyRight, ModNone}, {ti.KeyPgUp, KeyPgUp, ModNone},
		{ti.KeyPgDn, KeyPgDn, ModNone}, {ti.KeyHelp, KeyHelp, ModNone}, {ti.KeyPrint, KeyPrint, ModNone},
		{ti.KeyCancel, KeyCancel, ModNone}, {ti.KeyExit, KeyExit, ModNone}, {ti.KeyBacktab, KeyBacktab, ModNone},
		{ti.KeyShfRight, KeyRight, ModShift}, {ti.KeyShfLeft, KeyLeft, ModShift}, {ti.KeyShfUp, KeyUp, ModShift},
		{ti.KeyShfDown, KeyDown, ModShift}, {ti.KeyShfHome, KeyHome, ModShift}, {ti.KeyShfEnd, KeyEnd, ModShift},
		{ti.KeyShfPgUp, KeyPgUp, ModShift}, {ti.KeyShfPgDn, KeyPgDn, ModShift},
		{ti.KeyCtrlRight, KeyRight, ModCtrl}, {ti.KeyCtrlLeft, KeyLeft, ModCtrl}, {ti.KeyCtrlUp, KeyUp, ModCtrl},
		{ti.KeyCtrlDown, KeyDown, ModCtrl}, {ti.KeyCtrlHome, KeyHome, ModCtrl}, {ti.KeyCtrlEnd, KeyEnd, ModCtrl},
	}
	var out []h03Cap
	for _, c := range all {
		if c.seq != "" {
			out = append(out, c)
		}
	}
	return out
}

func h03Hex(s string) string {
	const hx = "0123456789abcdef"
	out := []byte{}
	for i := 0; i < len(s); i++ {
		out = append(out, hx[s[i]>>4], hx[s[i]&15], ' ')
	}
	return string(out)
}

func h03Decode(t *tScreen, b []byte, expire bool) ([]Event, int) {
	buf := bytes.NewBuffer(append([]byte{}, b...))
	evs := t.collectEventsFromInput(buf, expire)
	return evs, buf.Len()
}

// On xterm-style terminals F13..F64 are how shifted/ctrl/alt function keys arrive:
// the property allows them to be reported as base key plus modifiers.
func h03Alias(k Key) (Key, ModMask, bool) {
	switch {
	case k >= KeyF13 && k <= KeyF24:
		return k - 12, ModShift, true
	case k >= KeyF25 && k <= KeyF36:
		return k - 24, ModCtrl, true
	case k >= KeyF37 && k <= KeyF48:
		return k - 36, ModCtrl | ModShift, true
	case k >= KeyF49 && k <= KeyF60:
		return k - 48, ModAlt, true
	case k >= KeyF61 && k <= KeyF64:
		return k - 60, ModAlt | ModShift, true
	}
	return 0, 0, false
}

// H03_caps: each key capability string decodes to exactly one key event for a key
// the description assigns to that string; followed by other bytes it consumes exactly itself.
func H03_caps() {
	ents := terminfo.VerifEntries()
	ti := ents[vsymChoice("term", len(ents))]
	vsymNote("term", ti.Name)
	t := hNewTScreen(ti.Name)
	caps := h03Caps(t.ti)
	vsymAssert(len(t.keycodes) > 0, "the key table is built for every description")
	// no defined sequence is a proper prefix of another (so decoding cannot depend on map iteration order)
	clash := ""
	for a := range t.keycodes {
		for b := range t.keycodes {
			if len(a) < len(b) && strings.HasPrefix(b, a) && !(len(a) == 1 && a[0] == 0x1b) {
				clash = a + " < " + b
			}
		}
	}
	if clash != "" {
		vsymNote("clash", h03Hex(clash))
	}
	vsymAssert(clash == "", "no defined key sequence is a proper prefix of another: "+ti.Name)
	alt := vsymChoice("alt", 2) == 1
	sfx := vsymByte("suffix")
	vsymAssume(vsymAnd(sfx >= 'a', sfx <= 'z')) // a following key press
	for _, c := range caps {
		if len(c.seq) == 1 && c.seq[0] == 0x1b {
			continue
		}
		in := []byte(c.seq)
		if alt {
			in = append([]byte{0x1b}, in...)
		}
		in = append(in, sfx)
		// ESC ESC [ A: the first ESC counts as the Alt prefix once the escape timeout passes
		evs, left := h03Decode(t, in, alt && c.seq[0] == 0x1b)
		t.escaped = false
		ok := len(evs) == 2 && left == 0
		vsymAssert(ok, "a key sequence followed by a key press decodes to exactly two events: "+ti.Name)
		if !ok {
			continue
		}
		k, isKey := evs[0].(*EventKey)
		vsymAssert(isKey, "a key sequence decodes to a key event")
		if !isKey {
			continue
		}
		// the description may assign the same string to several capabilities: any of them is right
		match := false
		for _, d := range caps {
			if d.seq != c.seq {
				continue
			}
			wantMod := d.mod
			if alt {
				wantMod |= ModAlt
			}
			if k.Key() == d.key && k.Modifiers() == wantMod {
				match = true
			}
			if bk, bm, isAlias := h03Alias(d.key); isAlias {
				wm := bm
				if alt {
					wm |= ModAlt
				}
				if k.Key() == bk && k.Modifiers() == wm {
					match = true
				}
			}
			if d.seq == "\x7f" {
				match = k.Key() == KeyBackspace2 // a single DEL byte is reported as Backspace2, whatever it is bound to
			}
		}
		// a one-byte capability that is a control byte or DEL is also right as that control key
		if len(c.seq) == 1 && (c.seq[0] < 0x20 || c.seq[0] == 0x7f) && k.Key() == Key(c.seq[0]) {
			match = true
		}
		vsymAssert(match, "sequence decodes to a key the description assigns to it (with Alt after ESC): "+ti.Name+" "+strings.ToUpper(strings.Trim(strings.Replace(c.seq, "\x1b", "ESC ", -1), " ")))
		k2, isKey2 := evs[1].(*EventKey)
		vsymAssert(isKey2 && k2.Key() == KeyRune && k2.Rune() == rune(sfx) && k2.Modifiers() == ModNone, "the following key press is decoded on its own")
	}
}

// H03_xtermmod: on xterm-style terminals the modifier parameter 2..16 decodes to exactly xterm's Shift/Alt/Ctrl/Meta set.
func H03_xtermmod() {
	terms := []string{"xterm-256color", "xterm", "alacritty", "xterm-kitty", "foot", "tmux-256color", "konsole-256color"}
	t := hNewTScreen(terms[vsymChoice("term", vsymParam("terms", 3))])
	if t.ti.Modifiers != terminfo.ModifiersXTerm {
		vsymCutPath("not an xterm-modifier terminal")
	}
	type bk struct {
		seq string
		key Key
	}
	ti := t.ti
	base := []bk{{ti.KeyRight, KeyRight}, {ti.KeyLeft, KeyLeft}, {ti.KeyUp, KeyUp}, {ti.KeyDown, KeyDown}, {ti.KeyInsert, KeyInsert},
		{ti.KeyDelete, KeyDelete}, {ti.KeyPgUp, KeyPgUp}, {ti.KeyPgDn, KeyPgDn}, {ti.KeyHome, KeyHome}, {ti.KeyEnd, KeyEnd},
		{ti.KeyF1, KeyF1}, {ti.KeyF2, KeyF2}, {ti.KeyF3, KeyF3}, {ti.KeyF4, KeyF4}, {ti.KeyF5, KeyF5}, {ti.KeyF6, KeyF6},
		{ti.KeyF7, KeyF7}, {ti.KeyF8, KeyF8}, {ti.KeyF9, KeyF9}, {ti.KeyF10, KeyF10}, {ti.KeyF11, KeyF11}, {ti.KeyF12, KeyF12}}
	b := base[vsymChoice("key", len(base))]
	// the modifier parameter p in 2..16 as one or two symbolic digits
	var digits []byte
	p := 0
	if vsymChoice("pdigits", 2) == 0 {
		d := vsymByte("p0")
		vsymAssume(vsymAnd(d >= '2', d <= '9'))
		digits = []byte{d}
		p = int(d - '0')
	} else {
		d := vsymByte("p1")
		vsymAssume(vsymAnd(d >= '0', d <= '6'))
		digits = []byte{'1', d}
		p = 10 + int(d-'0')
	}
	var in []byte
	switch {
	case strings.HasPrefix(b.seq, "\x1b[") && strings.HasSuffix(b.seq, "~"):
		in = append(in, b.seq[:len(b.seq)-1]...)
		in = append(in, ';')
		in = append(in, digits...)
		in = append(in, '~')
	case strings.HasPrefix(b.seq, "\x1bO") && len(b.seq) == 3:
		in = append(in, "\x1b[1;"...)
		in = append(in, digits...)
		in = append(in, b.seq[2])
	default:
		vsymCutPath("base key has no xterm modifier form")
	}
	// ESC immediately before the sequence adds Alt to the key's own modifiers
	alt := vsymChoice("alt", 2) == 1
	if alt {
		in = append([]byte{0x1b}, in...)
	}
	evs, left := h03Decode(t, in, alt)
	vsymAssert(len(evs) == 1 && left == 0, "a modified key sequence decodes to exactly one event")
	if len(evs) != 1 {
		return
	}
	k, ok := evs[0].(*EventKey)
	vsymAssert(ok, "a modified key sequence decodes to a key event")
	if !ok {
		return
	}
	m := p - 1
	var want ModMask
	if m&1 != 0 {
		want |= ModShift
	}
	if m&2 != 0 {
		want |= ModAlt
	}
	if m&4 != 0 {
		want |= ModCtrl
	}
	if m&8 != 0 {
		want |= ModMeta
	}
	if alt {
		want |= ModAlt
	}
	vsymAssert(k.Key() == b.key, "the modified sequence reports the base key")
	vsymAssert(k.Modifiers() == want, "the modifier parameter p decodes to the bits of p-1: Shift 1, Alt 2, Ctrl 4, Meta 8")
}

// H03_ctrl: single control bytes, DEL, lone ESC and ESC-prefixed keys.
func H03_ctrl() {
	terms := []string{"xterm-256color", "linux", "vt220", "ansi", "screen", "rxvt"}
	t := hNewTScreen(terms[vsymChoice("term", vsymParam("terms", 6))])
	b := vsymByte("b")
	vsymAssume(vsymOr(b < 0x20, b == 0x7f))
	// control bytes the description itself assigns (e.g. kcud1 = \n) belong to the description
	for k := range t.keycodes {
		if len(k) >= 1 && len(k) > 1 {
			vsymAssume(b != k[0]) // first byte of a longer sequence: delivered only after the timeout (judged below for ESC)
		}
	}
	evs, left := h03Decode(t, []byte{b}, true)
	vsymAssert(len(evs) == 1 && left == 0, "a single control byte decodes to exactly one event")
	if len(evs) == 1 {
		k, ok := evs[0].(*EventKey)
		vsymAssert(ok, "a control byte decodes to a key event")
		if ok {
			assigned := false
			for seq, kc := range t.keycodes {
				if len(seq) == 1 && seq[0] == b && kc.key != Key(b) {
					assigned = true
				}
			}
			if b == 0x7f {
				// whatever the description binds DEL to, a single DEL byte is reported as Backspace2
				vsymAssert(k.Key() == KeyBackspace2 && k.Modifiers() == ModNone, "a single DEL byte is reported as Backspace2")
			}
			if !assigned {
				vsymAssert(k.Key() == Key(b), "a control byte decodes to the Ctrl-letter key (DEL to Backspace2)")
				switch Key(b) {
				case KeyBackspace, KeyTab, KeyEnter, KeyEsc, KeyDEL:
					vsymAssert(k.Modifiers() == ModNone, "Backspace, Tab, Enter, Esc and DEL are unmodified")
				default:
					vsymAssert(k.Modifiers() == ModCtrl, "other control bytes carry Ctrl")
				}
			}
		}
	}
	// lone ESC: nothing before the timeout, Esc after it
	evs, left = h03Decode(t, []byte{0x1b}, false)
	vsymAssert(len(evs) == 0 && left == 1, "a lone ESC is held back until the timeout")
	evs, left = h03Decode(t, []byte{0x1b}, true)
	if len(evs) == 1 {
		k, ok := evs[0].(*EventKey)
		vsymAssert(ok && k.Key() == KeyEsc && k.Modifiers() == ModNone && left == 0, "a lone ESC yields Esc once the timeout passes")
	} else {
		vsymAssert(false, "a lone ESC yields exactly one event once the timeout passes")
	}
	// ESC followed by a printable key: that key with Alt
	c := vsymByte("c")
	vsymAssume(vsymAnd(c >= 'a', c <= 'z'))
	for k := range t.keycodes {
		if len(k) >= 2 && k[0] == 0x1b {
			vsymAssume(c != k[1])
		}
	}
	evs, left = h03Decode(t, []byte{0x1b, c}, true)
	if len(evs) == 1 {
		k, ok := evs[0].(*EventKey)
		vsymAssert(ok && k.Key() == KeyRune && k.Rune() == rune(c) && k.Modifiers() == ModAlt && left == 0, "ESC immediately followed by a key yields that key with Alt")
	} else {
		vsymAssert(false, "ESC followed by a key yields exactly one event")
	}
}
