//go:build verif && !js

package tcell

import (
	"github.com/gdamore/tcell/v2/terminfo"
	"strings"
)

// C01 / C13 / C09(stream) — the terminal display equals the logical screen.
//
// Bounded histories through the public API from the real Init():
//   paint every cell; Show; mutation(s); final (Show | Sync | window resize | corruption + Sync)
// After the final operation the reference terminal's grid is compared with a
// shadow of what the application last set (h08Spec: the CellBuffer specification).

func h01Terms() []string {
	return []string{"xterm-256color", "linux", "vt220", "ansi", "xterm", "screen-256color", "rxvt-unicode", "vt100", "tmux", "konsole-256color"}
}

type h01Env struct {
	t      *tScreen
	tty    *hTty
	s      Screen
	sp     *h08Spec
	w, h   int
	style  Style // SetStyle value
	curX   int
	curY   int
	truec  bool
	stampB []int // stamps before the final Show (C13)
	// SetStyle changed the default style and only a Show (no full repaint) followed:
	// cells stored with StyleDefault keep the default style of the time they were
	// painted (DESIGN A.2), so their appearance is not judged
	styleOpen bool
	// index+1 of a cell whose stored rune was switched between 0 and ' ' in this frame:
	// same appearance, but the stored value differs, so a repaint is neither required nor forbidden
	exempt int
}

func h01New(term string, w, h int, truecolor bool) *h01Env {
	vsymSetenv("VSYM_CLOCK", "concrete") // time is not the subject (H05_when switches the symbolic clock back on)
	t, tty, s := hScreen(term, w, h, truecolor)
	e := &h01Env{t: t, tty: tty, s: s, w: w, h: h, curX: -1, curY: -1, truec: truecolor}
	e.sp = &h08Spec{}
	e.sp.Resize(w, h)
	return e
}

func (e *h01Env) set(x, y int, r rune, comb []rune, st Style) {
	e.s.SetContent(x, y, r, comb, st)
	e.sp.SetContent(x, y, r, comb, st)
}

// h01Color: expected terminal colour for a tcell colour on this screen.
func (e *h01Env) color(c Color) (rvColor, bool) {
	switch {
	case c == ColorDefault || c == ColorReset || !c.Valid():
		return rvColor{}, true
	case c.IsRGB():
		if e.t.truecolor {
			return rvColor{2, int(c.Hex())}, true
		}
		return rvColor{}, false // nearest-palette: judged only for concrete colours elsewhere
	default:
		idx := int(c & 0xff)
		if int(c&^ColorValid) < e.t.nColors() {
			return rvColor{1, idx}, true
		}
		return rvColor{}, false
	}
}

// expected pen for a style; known=false where the oracle leaves the appearance open
func (e *h01Env) pen(st Style) (rvPen, bool) {
	t, ti := e.t, e.t.ti
	known := true
	if st == StyleDefault {
		st = e.style
		if e.styleOpen {
			known = false
		}
	}
	var p rvPen
	if ti.Colors > 0 {
		var ok1, ok2 bool
		p.fg, ok1 = e.color(st.fg)
		p.bg, ok2 = e.color(st.bg)
		known = known && ok1 && ok2
		if (st.fg == ColorReset || st.bg == ColorReset) && ti.ResetFgBg == "" {
			known = false
		}
	} else {
		known = known && !st.fg.Valid() // reverse-video heuristics on colourless terminals are not judged
	}
	a := st.attrs
	p.bold = a&AttrBold != 0 && ti.Bold != ""
	p.blink = a&AttrBlink != 0 && ti.Blink != ""
	p.reverse = a&AttrReverse != 0 && ti.Reverse != ""
	p.dim = a&AttrDim != 0 && ti.Dim != ""
	p.italic = a&AttrItalic != 0 && ti.Italic != ""
	p.strike = a&AttrStrikeThrough != 0 && ti.StrikeThrough != ""
	if st.ulStyle != UnderlineStyleNone && ti.Underline != "" {
		p.under = 1
		switch st.ulStyle {
		case UnderlineStyleDouble:
			if t.doubleUnder != "" {
				p.under = 2
			}
		case UnderlineStyleCurly:
			if t.curlyUnder != "" {
				p.under = 3
			}
		case UnderlineStyleDotted:
			if t.dottedUnder != "" {
				p.under = 4
			}
		case UnderlineStyleDashed:
			if t.dashedUnder != "" {
				p.under = 5
			}
		}
		if t.underColor != "" || t.underRGB != "" {
			uc := st.ulColor
			switch {
			case uc == ColorReset || !uc.Valid():
				p.ul = rvColor{}
			case uc.IsRGB() && t.underRGB != "":
				p.ul = rvColor{2, int(uc.Hex())}
			case uc.IsRGB():
				known = false
			default:
				p.ul = rvColor{1, int(uc & 0xff)}
			}
		}
	}
	if t.enterUrl != "" {
		p.url, p.urlid = st.url, st.urlId
		if len(p.urlid) >= 3 && p.urlid[:3] == "id=" {
			p.urlid = p.urlid[3:] // Style.UrlId stores the OSC 8 parameter "id=<id>"
		}
		if st.url == "" {
			p.urlid = ""
		}
	}
	return p, known
}

func h01PenEq(a, b rvPen) bool {
	return a.fg == b.fg && a.bg == b.bg && a.bold == b.bold && a.dim == b.dim && a.italic == b.italic &&
		a.blink == b.blink && a.reverse == b.reverse && a.strike == b.strike && a.under == b.under &&
		(a.under == 0 || a.ul == b.ul) && a.url == b.url && a.urlid == b.urlid
}

// compare: the terminal shows, in every unlocked cell, what the application last set
func (e *h01Env) compare(what string) {
	vt := e.tty.vt
	vsymAssert(len(vt.bad) == 0, what+": output is a well-formed ECMA-48 stream (C09)")
	vsymAssert(!vt.scrolled && !vt.wrapped, what+": the terminal never scrolls or wraps")
	vsymAssert(vt.w == e.w && vt.h == e.h, what+": terminal size")
	for y := 0; y < e.h; y++ {
		covered := false
		for x := 0; x < e.w; x++ {
			c := &e.sp.cells[y*e.sp.w+x]
			got := vt.at(x, y)
			if c.lock {
				covered = false
				continue
			}
			if covered {
				covered = false
				vsymAssert(got.cont, what+": the column after a wide character is covered by it")
				continue
			}
			er, ew := c.em, c.ew
			ecomb := c.comb
			if ew == 2 && x == e.w-1 {
				er, ew, ecomb = ' ', 1, nil // a wide rune in the last column is shown as a blank
			}
			if er == ' ' && c.em != c.main {
				ecomb = c.comb // blanked control/zero-width primary keeps its (zero-width) combining marks
			}
			vsymAssert(got.r == er && !got.cont, what+": cell shows the rune last set (wide runes cover two columns, blank for the last column)")
			vsymAssert(h08RunesEq(got.comb, ecomb), what+": cell shows the combining runes last set")
			ep, known := e.pen(c.style)
			if known {
				g := got.pen
				vsymAssert(g.fg == ep.fg && g.bg == ep.bg, what+": cell shows the colours last set")
				vsymAssert(g.bold == ep.bold && g.dim == ep.dim && g.italic == ep.italic && g.blink == ep.blink && g.reverse == ep.reverse && g.strike == ep.strike, what+": cell shows the attributes last set")
				vsymAssert(g.under == ep.under && (g.under == 0 || g.ul == ep.ul), what+": cell shows the underline style and colour last set")
				vsymAssert(g.url == ep.url && g.urlid == ep.urlid, what+": cell shows the hyperlink last set")
			}
			covered = ew == 2
		}
	}
	// cursor
	ti := e.t.ti
	if e.curX >= 0 && e.curY >= 0 && e.curX < e.w && e.curY < e.h {
		vsymAssert(vt.cx == e.curX && vt.cy == e.curY, what+": cursor is at the requested cell")
		if ti.ShowCursor != "" {
			vsymAssert(vt.cursorVis, what+": cursor is visible")
		}
	} else if ti.HideCursor != "" {
		vsymAssert(!vt.cursorVis, what+": cursor is hidden when the requested cell is off-screen")
	} else {
		vsymAssert(vt.cx == e.w-1 && vt.cy == e.h-1, what+": cursor is parked in the bottom-right corner on terminals that cannot hide it")
	}
}

func (e *h01Env) stamps() []int {
	out := make([]int, e.w*e.h)
	for i := range out {
		out[i] = e.tty.vt.cells[i].stamp
	}
	return out
}

// H01_smoke: Init, paint, Show on one terminal (engine bring-up).
func H01_smoke() {
	terms := h01Terms()
	e := h01New(terms[vsymChoice("term", vsymParam("terms", 1))], 3, 1, false)
	e.set(0, 0, 'a', nil, StyleDefault)
	e.set(1, 0, 'b', nil, StyleDefault)
	e.set(2, 0, 'c', nil, StyleDefault)
	e.s.Show()
	e.compare("after Show")
}

// h01Style: one of four symbolically parameterised styles.
func (e *h01Env) menuStyle(tag string) Style {
	st := StyleDefault
	switch vsymChoice(tag+".style", vsymParam("styles", 4)) {
	case 0:
	case 1: // palette colours, both symbolic below the terminal's colour count
		n := e.t.nColors()
		if n == 0 {
			vsymCutPath("colourless terminal")
		}
		if n > 256 {
			n = 256
		}
		if pm := vsymParam("palmax", 256); pm < n {
			n = pm // quick tier: stay inside one branch of the setaf/setab conditionals
		}
		fg, bg := int(vsymByte(tag+".fg")), int(vsymByte(tag+".bg"))
		vsymAssume(vsymAnd(fg < n, bg < n))
		st = st.Foreground(PaletteColor(fg)).Background(PaletteColor(bg))
	case 2: // RGB foreground, curly coloured underline, hyperlink
		rgb := int32(vsymUint32(tag+".rgb") & 0xffffff)
		st = st.Foreground(NewHexColor(rgb)).Underline(UnderlineStyleCurly, PaletteColor(int(vsymByte(tag+".ulc")))).Url("http://x/" + string(rune('a'+vsymChoice(tag+".u", 2)))).UrlId("i")
		if !e.t.truecolor {
			st = st.Foreground(ColorDefault)
		}
	case 3: // attributes + ColorReset
		st = st.Reverse(true).Bold(true).Foreground(ColorReset).Background(ColorReset)
		if vsymBool(tag + ".italic") {
			st = st.Italic(true)
		}
		if vsymBool(tag + ".dim") {
			st = st.Dim(true).Blink(true).StrikeThrough(true)
		}
	}
	return st
}

// h01Rune: a rune of a chosen class.  Printable ASCII stays symbolic (one-byte
// encoding keeps the solver terms small); the other classes use concrete
// representatives, because decode(encode(r)) of a symbolic multi-byte rune makes
// every width lookup in the reference terminal a hard bit-vector query.  (C09's
// rune harness covers every int32 value for the sanitising step.)
func h01Rune(tag string, classes int) rune {
	switch vsymChoice(tag+".class", classes) {
	case 0:
		r := vsymRune(tag)
		vsymAssume(vsymAnd(r >= 0x21, r <= 0x7e))
		return r
	case 1:
		return []rune{0x4e16, 0xff21}[vsymChoice(tag+".wide", vsymParam("reps", 1))] // 世, fullwidth A
	case 2:
		return []rune{0x1b, 0x07, 0x00, 0x7f}[vsymChoice(tag+".ctl", 1+vsymParam("reps", 1))]
	case 3:
		return []rune{0x9b, 0x200b, 0x0301}[vsymChoice(tag+".c1", 1+vsymParam("reps", 1))] // C1 CSI, zero-width space, bare combining mark
	}
	return 'x'
}

// mutation: one symbolic application call between two paints
func (e *h01Env) mutate(tag string) {
	switch vsymChoice(tag+".op", vsymParam("ops", 7)) {
	case 0: // SetContent anywhere (also out of range)
		x, y := vsymInt(tag+".x"), vsymInt(tag+".y")
		vsymAssume(vsymAnd(vsymAnd(x >= -1, x <= e.w), vsymAnd(y >= -1, y <= e.h)))
		if vsymChoice(tag+".inrange", 2) == 1 {
			// out of range (any of the ways): the content is irrelevant, keep it simple
			vsymAssume(!e.sp.in(x, y))
			e.set(x, y, 'Q', nil, StyleDefault.Bold(true))
			break
		}
		vsymAssume(e.sp.in(x, y))
		r := h01Rune(tag+".r", vsymParam("classes", 4))
		var comb []rune
		if vsymChoice(tag+".comb", 2) == 1 {
			comb = []rune{[]rune{0x0301, 0x0308}[vsymChoice(tag+".c", vsymParam("reps", 1))]}
		}
		e.set(x, y, r, comb, e.menuStyle(tag))
	case 1: // re-store identical content in cell 0,0 (C13: must not repaint)
		c := &e.sp.cells[0]
		e.set(0, 0, c.main, c.comb, c.style)
	case 2: // Fill
		r := h01Rune(tag+".r", 1)
		st := e.menuStyle(tag)
		e.s.Fill(r, st)
		e.sp.Fill(r, st)
	case 3: // SetStyle
		e.style = e.menuStyle(tag)
		e.s.SetStyle(e.style)
		e.styleOpen = true
	case 4: // ShowCursor
		e.curX, e.curY = vsymInt(tag+".cx"), vsymInt(tag+".cy")
		vsymAssume(vsymAnd(vsymAnd(e.curX >= -1, e.curX <= e.w), vsymAnd(e.curY >= -1, e.curY <= e.h)))
		e.s.ShowCursor(e.curX, e.curY)
	case 5: // LockRegion on/off around cell (0,0) then change it
		e.s.LockRegion(0, 0, 1, 1, true)
		e.sp.Lock(0, 0)
		e.set(0, 0, 'L', nil, StyleDefault)
	case 6: // nothing
	}
}

// H01_hist: paint, Show, mutation(s), final operation; then display == logical screen (C01),
// unchanged cells keep their write stamp (C13), stream well-formed (C09).
func H01_hist() {
	terms := h01Terms()
	term := terms[vsymChoice("term", vsymParam("terms", 4))]
	truec := vsymChoice("truecolor", vsymParam("tcvar", 2)) == 1
	var w, h int
	switch vsymChoice("grid", vsymParam("grids", 2)) {
	case 0:
		w, h = 3, 1
	case 1:
		w, h = 2, 2
	case 2:
		w, h = 4, 1
	case 3:
		w, h = 3, 2
	}
	e := h01New(term, w, h, truec)
	// paint every cell: letters, one cell optionally wide
	wide := vsymChoice("wide", vsymParam("widevar", w*h+1)) - 1
	for y := 0; y < h; y++ {
		for x := 0; x < w; x++ {
			r := rune('a' + y*w + x)
			if y*w+x == wide {
				r = 0x4e16 // 世
			}
			e.set(x, y, r, nil, StyleDefault)
		}
	}
	e.s.Show()
	e.compare("after the first Show")
	nm := vsymParam("mutations", 1)
	for i := 0; i < nm; i++ {
		// snapshot of what is on screen, for the C13 judgement
		before := make([]h08Cell, len(e.sp.cells))
		copy(before, e.sp.cells)
		stamps := e.stamps()
		styleBefore := e.style
		e.mutate("m" + string(rune('0'+i)))
		final := vsymChoice("final"+string(rune('0'+i)), vsymParam("finals", 4))
		blkBefore := e.tty.vt.blk
		if final != 0 {
			e.styleOpen = false // a full repaint follows
		}
		switch final {
		case 0:
			e.s.Show()
		case 1:
			e.s.Sync()
		case 2: // the terminal's contents became arbitrary; Sync repairs them
			e.tty.vt.corrupt('#')
			e.s.Sync()
		case 3: // window resize notification handled by the main loop
			e.tty.vt.corrupt('%')
			if e.tty.cb != nil {
				e.tty.cb()
			}
			vsymRunBlocked()
		}
		e.compare("after mutation and repaint")
		if final == 0 {
			e.c13(before, stamps, styleBefore, blkBefore)
		}
		for j := range e.sp.cells {
			if e.sp.cells[j].lock {
				// unlock: the first Show afterwards repaints the cell
				e.s.LockRegion(0, 0, 1, 1, false)
				e.sp.Unlock(0, 0)
				e.s.Show()
				e.compare("after unlock and Show")
				break
			}
		}
	}
}

// c13: a Show writes cell content only to cells whose appearance changed (plus
// columns covered/uncovered by a changed wide rune and the corner neighbour).
func (e *h01Env) c13(before []h08Cell, stamps []int, styleBefore Style, blkBefore int) {
	vt := e.tty.vt
	ti := e.t.ti
	corner := ti.AutoMargin && ti.DisableAutoMargin == "" && ti.InsertChar != ""
	for y := 0; y < e.h; y++ {
		for x := 0; x < e.w; x++ {
			i := y*e.w + x
			b, a := &before[i], &e.sp.cells[i]
			same := vsymAnd(b.main == a.main, vsymAnd(h08RunesEq(b.comb, a.comb), b.style == a.style))
			// cells displayed in the default style change when SetStyle changed
			if a.style == StyleDefault && styleBefore != e.style {
				same = false
			}
			// neighbours of a changed or previously/now wide rune may be repainted
			near := false
			for _, dx := range []int{-1, 1} {
				if x+dx >= 0 && x+dx < e.w {
					nb, na := &before[i+dx], &e.sp.cells[i+dx]
					if nb.ew == 2 || na.ew == 2 {
						near = true
					}
				}
			}
			if b.ew == 2 || a.ew == 2 {
				near = true
			}
			if corner && y == e.h-1 && x >= e.w-2 {
				near = true
			}
			written := vt.cells[i].stamp > blkBefore
			if a.lock {
				vsymAssert(!written, "C13: a locked cell is never written")
				continue
			}
			if !near && e.exempt != i+1 {
				vsymAssert(vsymImplies(same, !written), "C13: a cell whose rune, combining runes and style did not change is not rewritten by Show")
			}
		}
	}
}

// small menu for multi-frame histories: what changes between frames is the
// combining mark, the hyperlink and the attributes of one cell
func (e *h01Env) smallMutation(tag string) {
	x, y := vsymChoice(tag+".x", e.w), vsymChoice(tag+".y", vsymParam("framerows", e.h))
	r := vsymRune(tag + ".r")
	vsymAssume(vsymAnd(r >= 0x21, r <= 0x7e))
	switch vsymChoice(tag+".keeprune", 3) {
	case 1:
		r = e.sp.cells[y*e.w+x].main
	case 2:
		r = 0x0a // a control rune: shown as a blank, width 0 internally, keeps its combining marks
	}
	var comb []rune
	switch vsymChoice(tag+".comb", 3) {
	case 1:
		comb = []rune{0x0301}
	case 2:
		comb = []rune{0x0300}
	}
	st := StyleDefault
	switch vsymChoice(tag+".style", 3) {
	case 1:
		st = st.Url("http://x/" + string(rune('a'+vsymChoice(tag+".u", 2))))
	case 2:
		st = st.Bold(true).Foreground(PaletteColor(int(vsymByte(tag+".fg") & 7)))
	}
	e.set(x, y, r, comb, st)
}

// H01_frames: three frames (paint; change; change) — state that must not leak
// from one Show into the next (hyperlinks, current style, clean snapshots).
func H01_frames() {
	terms := h01Terms()
	e := h01New(terms[vsymChoice("term", vsymParam("terms", 1))], 2, 2, false)
	for y := 0; y < 2; y++ {
		for x := 0; x < 2; x++ {
			e.set(x, y, rune('a'+y*2+x), nil, StyleDefault)
		}
	}
	e.s.Show()
	e.compare("frame 1")
	for f := 0; f < 2; f++ {
		before := make([]h08Cell, len(e.sp.cells))
		copy(before, e.sp.cells)
		stamps := e.stamps()
		blk := e.tty.vt.blk
		e.smallMutation("f" + string(rune('0'+f)))
		e.s.Show()
		e.compare("frame " + string(rune('2'+f)))
		e.c13(before, stamps, e.style, blk)
		// a changed cell must be repainted (C13's other half: Show does redraw what changed)
		for i := range e.sp.cells {
			b, a := &before[i], &e.sp.cells[i]
			changed := vsymOr(b.main != a.main, vsymOr(!h08RunesEq(b.comb, a.comb), b.style != a.style))
			vsymAssert(vsymImplies(changed, e.tty.vt.cells[i].stamp > blk), "a cell whose rune, combining runes or style changed is rewritten by the next Show")
		}
	}
}

// H01_wide: frames on a 4x2 screen whose second row is never assigned (no Clear, no
// Fill): wide runes placed over painted cells and moved by one column, cells set to
// rune 0, and idle frames.  After every Show the display equals the shadow, unchanged
// cells are not rewritten (also the never-assigned ones) and changed ones are.
func H01_wide() {
	terms := h01Terms()
	e := h01New(terms[vsymChoice("term", vsymParam("terms", 1))], 4, 2, false)
	for x := 0; x < 4; x++ {
		e.set(x, 0, rune('a'+x), nil, StyleDefault)
	}
	e.s.Show()
	e.compare("frame 1")
	nf := vsymParam("wideframes", 3)
	for f := 0; f < nf; f++ {
		tag := "w" + string(rune('0'+f))
		before := make([]h08Cell, len(e.sp.cells))
		copy(before, e.sp.cells)
		stamps := e.stamps()
		blk := e.tty.vt.blk
		x, y := vsymChoice(tag+".x", 4), vsymChoice(tag+".y", 2)
		switch vsymChoice(tag+".op", 4) {
		case 0:
			// idle frame
		case 1:
			r := vsymRune(tag + ".r")
			vsymAssume(vsymAnd(r >= 0x21, r <= 0x7e))
			e.set(x, y, r, nil, StyleDefault)
		case 2:
			e.set(x, y, []rune{0x4e16, 0xff21}[vsymChoice(tag+".wide", 2)], nil, StyleDefault)
		case 3:
			e.set(x, y, 0, nil, StyleDefault)
			e.exempt = y*4 + x + 1
		}
		e.s.Show()
		e.compare("frame " + string(rune('2'+f)))
		e.c13(before, stamps, e.style, blk)
		e.exempt = 0
	}
}

// H01_allterms: every built-in description whose cursor addressing starts with CSI (the
// ECMA-48 family): Init, a frame with plain, styled, wide and control content, Show, one
// change, Show, Sync, then Fini - after every step the reference terminal shows what the
// application set and the stream is well-formed; after Fini the terminal is restored.
func H01_allterms() {
	ents := terminfo.VerifEntries()
	ti := ents[vsymChoice("term", len(ents))]
	vsymNote("term", ti.Name)
	if !strings.HasPrefix(ti.SetCursor, "\x1b[") || (len(ti.Clear) == 1 && ti.Clear[0] < 0x20) {
		// not CSI-addressed, or clearing with a bare C0 control (sun: FF), which the
		// reference terminal does not model: outside the claim
		vsymAssert(ti.Name != "xterm-256color", "the ECMA-48 family includes xterm")
		return
	}
	e := h01New(ti.Name, 4, 2, false)
	st := StyleDefault.Bold(true).Foreground(PaletteColor(int(vsymByte("fg") & 7))).Background(PaletteColor(int(vsymByte("bg") & 7)))
	e.set(0, 0, 'a', nil, StyleDefault)
	e.set(1, 0, 'b', nil, st)
	e.set(2, 0, 0x4e16, nil, StyleDefault.Underline(true))
	e.set(0, 1, 'c', []rune{0x0301}, StyleDefault.Reverse(true))
	e.set(1, 1, 0x07, nil, StyleDefault)
	e.set(3, 1, 'z', nil, StyleDefault.Dim(true))
	e.s.Show()
	e.compare("frame 1")
	r := vsymRune("r")
	vsymAssume(vsymAnd(r >= 0x21, r <= 0x7e))
	e.set(vsymChoice("x", 4), vsymChoice("y", 2), r, nil, st.Italic(true))
	e.s.Show()
	e.compare("frame 2")
	e.s.Sync()
	e.compare("after Sync")
	e.s.Fini()
	vt := e.tty.vt
	vsymAssert(len(vt.bad) == 0, "after Fini: output is a well-formed ECMA-48 stream")
	vsymAssert(!vt.alt && vt.cursorVis && !vt.keypad, "after Fini: primary screen, cursor visible, keypad mode off")
	vsymAssert(vt.pen == (rvPen{}), "after Fini: colours and attributes are reset")
}

// H13_lock: LockRegion with any origin (also off-screen) and extent on a painted 4x2
// screen: while locked, exactly the cells of the region that lie on the screen are never
// written, every other changed cell is repainted; after unlocking, the region's cells are
// repainted by the next Show and the others are left alone.
func H13_lock() {
	e := h01New("xterm-256color", 4, 2, false)
	for y := 0; y < 2; y++ {
		for x := 0; x < 4; x++ {
			e.set(x, y, rune('a'+y*4+x), nil, StyleDefault)
		}
	}
	e.s.Show()
	e.compare("painted")
	x0, y0 := vsymChoice("x0", 6)-2, vsymChoice("y0", 3)-1
	w, h := 1+vsymChoice("w", 5), 1+vsymChoice("h", 2)
	e.s.LockRegion(x0, y0, w, h, true)
	for y := y0; y < y0+h; y++ {
		for x := x0; x < x0+w; x++ {
			e.sp.Lock(x, y)
		}
	}
	// frame 2: every cell changes
	before := make([]h08Cell, len(e.sp.cells))
	copy(before, e.sp.cells)
	stamps := e.stamps()
	blk := e.tty.vt.blk
	for y := 0; y < 2; y++ {
		for x := 0; x < 4; x++ {
			e.set(x, y, rune('A'+y*4+x), nil, StyleDefault)
		}
	}
	e.s.Show()
	e.compare("while locked")
	e.c13(before, stamps, e.style, blk)
	for i := range e.sp.cells {
		if !e.sp.cells[i].lock {
			vsymAssert(e.tty.vt.cells[i].stamp > blk, "a changed cell outside the locked region is repainted")
		} else {
			vsymAssert(e.tty.vt.cells[i].r == rune('a'+i), "a locked cell keeps showing what it showed when it was locked")
		}
	}
	// frame 3: unlock, nothing else changes
	locked := make([]bool, len(e.sp.cells))
	for i := range locked {
		locked[i] = e.sp.cells[i].lock
	}
	e.s.LockRegion(x0, y0, w, h, false)
	for y := y0; y < y0+h; y++ {
		for x := x0; x < x0+w; x++ {
			e.sp.Unlock(x, y)
		}
	}
	blk = e.tty.vt.blk
	e.s.Show()
	e.compare("after unlocking")
	for i := range e.sp.cells {
		if locked[i] {
			vsymAssert(e.tty.vt.cells[i].stamp > blk, "a cell is repainted by the first Show after it was unlocked")
		} else {
			vsymAssert(e.tty.vt.cells[i].stamp <= blk, "unlocking a region does not repaint cells outside it")
		}
	}
}
