//go:build verif

package tcell

// C01 / C13 / C09(stream) — the terminal display equals the logical screen.
//
// Bounded histories through the public API from the real Init():
//   paint every cell; Show; mutation(s); final (Show | Sync | window resize | corruption + Sync)
// After the final operation the reference terminal's grid is compared with a
// shadow of what the application last set (h08Spec: the CellBuffer specification).

func h01Terms() []string {
	return []string{"xterm-256color", "linux", "vt220", "ansi", "xterm", "screen-256color", "rxvt-unicode", "vt100", "tmux", "konsole-256color"}
}

type h01Env struct {
	t      *tScreen
	tty    *hTty
	s      Screen
	sp     *h08Spec
	w, h   int
	style  Style // SetStyle value
	curX   int
	curY   int
	truec  bool
	stampB []int // stamps before the final Show (C13)
}

func h01New(term string, w, h int, truecolor bool) *h01Env {
	t, tty, s := hScreen(term, w, h, truecolor)
	e := &h01Env{t: t, tty: tty, s: s, w: w, h: h, curX: -1, curY: -1, truec: truecolor}
	e.sp = &h08Spec{}
	e.sp.Resize(w, h)
	return e
}

func (e *h01Env) set(x, y int, r rune, comb []rune, st Style) {
	e.s.SetContent(x, y, r, comb, st)
	e.sp.SetContent(x, y, r, comb, st)
}

// h01Color: expected terminal colour for a tcell colour on this screen.
func (e *h01Env) color(c Color) (rvColor, bool) {
	switch {
	case c == ColorDefault || c == ColorReset || !c.Valid():
		return rvColor{}, true
	case c.IsRGB():
		if e.t.truecolor {
			return rvColor{2, int(c.Hex())}, true
		}
		return rvColor{}, false // nearest-palette: judged only for concrete colours elsewhere
	default:
		idx := int(c & 0xff)
		if int(c&^ColorValid) < e.t.nColors() {
			return rvColor{1, idx}, true
		}
		return rvColor{}, false
	}
}

// expected pen for a style; known=false where the oracle leaves the appearance open
func (e *h01Env) pen(st Style) (rvPen, bool) {
	t, ti := e.t, e.t.ti
	if st == StyleDefault {
		st = e.style
	}
	var p rvPen
	known := true
	if ti.Colors > 0 {
		var ok1, ok2 bool
		p.fg, ok1 = e.color(st.fg)
		p.bg, ok2 = e.color(st.bg)
		known = ok1 && ok2
		if (st.fg == ColorReset || st.bg == ColorReset) && ti.ResetFgBg == "" {
			known = false
		}
	} else {
		known = !st.fg.Valid() // reverse-video heuristics on colourless terminals are not judged
	}
	a := st.attrs
	p.bold = a&AttrBold != 0 && ti.Bold != ""
	p.blink = a&AttrBlink != 0 && ti.Blink != ""
	p.reverse = a&AttrReverse != 0 && ti.Reverse != ""
	p.dim = a&AttrDim != 0 && ti.Dim != ""
	p.italic = a&AttrItalic != 0 && ti.Italic != ""
	p.strike = a&AttrStrikeThrough != 0 && ti.StrikeThrough != ""
	if st.ulStyle != UnderlineStyleNone && ti.Underline != "" {
		p.under = 1
		switch st.ulStyle {
		case UnderlineStyleDouble:
			if t.doubleUnder != "" {
				p.under = 2
			}
		case UnderlineStyleCurly:
			if t.curlyUnder != "" {
				p.under = 3
			}
		case UnderlineStyleDotted:
			if t.dottedUnder != "" {
				p.under = 4
			}
		case UnderlineStyleDashed:
			if t.dashedUnder != "" {
				p.under = 5
			}
		}
		if t.underColor != "" || t.underRGB != "" {
			uc := st.ulColor
			switch {
			case uc == ColorReset || !uc.Valid():
				p.ul = rvColor{}
			case uc.IsRGB() && t.underRGB != "":
				p.ul = rvColor{2, int(uc.Hex())}
			case uc.IsRGB():
				known = false
			default:
				p.ul = rvColor{1, int(uc & 0xff)}
			}
		}
	}
	if t.enterUrl != "" {
		p.url, p.urlid = st.url, st.urlId
		if st.url == "" {
			p.urlid = ""
		}
	}
	return p, known
}

func h01PenEq(a, b rvPen) bool {
	return a.fg == b.fg && a.bg == b.bg && a.bold == b.bold && a.dim == b.dim && a.italic == b.italic &&
		a.blink == b.blink && a.reverse == b.reverse && a.strike == b.strike && a.under == b.under &&
		(a.under == 0 || a.ul == b.ul) && a.url == b.url && a.urlid == b.urlid
}

// compare: the terminal shows, in every unlocked cell, what the application last set
func (e *h01Env) compare(what string) {
	vt := e.tty.vt
	vsymAssert(len(vt.bad) == 0, what+": output is a well-formed ECMA-48 stream (C09)")
	vsymAssert(!vt.scrolled && !vt.wrapped, what+": the terminal never scrolls or wraps")
	vsymAssert(vt.w == e.w && vt.h == e.h, what+": terminal size")
	for y := 0; y < e.h; y++ {
		covered := false
		for x := 0; x < e.w; x++ {
			c := &e.sp.cells[y*e.sp.w+x]
			got := vt.at(x, y)
			if c.lock {
				covered = false
				continue
			}
			if covered {
				covered = false
				vsymAssert(got.cont, what+": the column after a wide character is covered by it")
				continue
			}
			er, ew := c.em, c.ew
			ecomb := c.comb
			if ew == 2 && x == e.w-1 {
				er, ew, ecomb = ' ', 1, nil // a wide rune in the last column is shown as a blank
			}
			if er == ' ' && c.em != c.main {
				ecomb = c.comb // blanked control/zero-width primary keeps its (zero-width) combining marks
			}
			vsymAssert(got.r == er && !got.cont, what+": cell shows the rune last set (wide runes cover two columns, blank for the last column)")
			vsymAssert(h08RunesEq(got.comb, ecomb), what+": cell shows the combining runes last set")
			ep, known := e.pen(c.style)
			if known {
				vsymAssert(h01PenEq(got.pen, ep), what+": cell shows the colours, attributes, underline and hyperlink last set")
			}
			covered = ew == 2
		}
	}
	// cursor
	ti := e.t.ti
	if e.curX >= 0 && e.curY >= 0 && e.curX < e.w && e.curY < e.h {
		vsymAssert(vt.cx == e.curX && vt.cy == e.curY, what+": cursor is at the requested cell")
		if ti.ShowCursor != "" {
			vsymAssert(vt.cursorVis, what+": cursor is visible")
		}
	} else if ti.HideCursor != "" {
		vsymAssert(!vt.cursorVis, what+": cursor is hidden when the requested cell is off-screen")
	} else {
		vsymAssert(vt.cx == e.w-1 && vt.cy == e.h-1, what+": cursor is parked in the bottom-right corner on terminals that cannot hide it")
	}
}

func (e *h01Env) stamps() []int {
	out := make([]int, e.w*e.h)
	for i := range out {
		out[i] = e.tty.vt.cells[i].stamp
	}
	return out
}

// H01_smoke: Init, paint, Show on one terminal (engine bring-up).
func H01_smoke() {
	terms := h01Terms()
	e := h01New(terms[vsymChoice("term", vsymParam("terms", 1))], 3, 1, false)
	e.set(0, 0, 'a', nil, StyleDefault)
	e.set(1, 0, 'b', nil, StyleDefault)
	e.set(2, 0, 'c', nil, StyleDefault)
	e.s.Show()
	e.compare("after Show")
}
