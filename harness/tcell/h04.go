//go:build verif && !js

package tcell

import (
	"github.com/gdamore/tcell/v2/terminfo"
	"strings"
)

// C04 — Fini/Suspend restore every terminal mode; Resume re-applies enabled ones;
// the Tty is driven in contract order.

type h04Want struct {
	mouse        MouseFlags
	paste, focus bool
	suspended    bool
	titleSet     bool
}

func h04Terms() []string {
	return []string{"xterm-256color", "linux", "vt220", "screen-256color", "tmux", "rxvt-unicode", "ansi", "konsole-256color", "xterm", "vt100"}
}

func (e *h01Env) h04Op(tag string, w *h04Want, group int) {
	// op menus per feature group (so that k stays useful)
	var menu []int
	switch group {
	case 0: // mouse
		menu = []int{0, 1, 10, 11, 9}
	case 1: // paste + focus
		menu = []int{2, 3, 4, 5, 10, 11}
	case 2: // cursor shape + colour
		menu = []int{6, 7, 9, 10, 11}
	case 3: // title, drawing, alt screen
		menu = []int{8, 9, 10, 11}
	}
	switch menu[vsymChoice(tag+".op", len(menu))] {
	case 0:
		f := MouseFlags(vsymByte(tag+".flags") & 7)
		if f == 0 {
			e.s.EnableMouse()
			w.mouse = MouseMotionEvents | MouseDragEvents | MouseButtonEvents
		} else {
			e.s.EnableMouse(f)
			w.mouse = f
		}
	case 1:
		e.s.DisableMouse()
		w.mouse = 0
	case 2:
		e.s.EnablePaste()
		w.paste = true
	case 3:
		e.s.DisablePaste()
		w.paste = false
	case 4:
		e.s.EnableFocus()
		w.focus = true
	case 5:
		e.s.DisableFocus()
		w.focus = false
	case 6: // cursor style and colour take effect at the next Show
		cs := CursorStyle(vsymChoice(tag+".cs", 7))
		switch vsymChoice(tag+".cc", 3) {
		case 0:
			e.s.SetCursorStyle(cs)
		case 1:
			e.s.SetCursorStyle(cs, ColorReset)
		case 2:
			e.s.SetCursorStyle(cs, NewRGBColor(int32(vsymByte(tag+".r")), 0x20, 0x10))
		}
		e.s.ShowCursor(0, 0)
		e.curX, e.curY = 0, 0
		if !w.suspended && vsymChoice(tag+".show", 2) == 0 {
			e.s.Show()
		}
	case 7:
		e.s.HideCursor()
		e.curX, e.curY = -1, -1
		if !w.suspended {
			e.s.Show()
		}
	case 8:
		e.s.SetTitle("t" + string(rune('a'+vsymChoice(tag+".title", 2))))
		w.titleSet = true
	case 9:
		if !w.suspended {
			e.set(0, 0, 'Z', nil, StyleDefault.Bold(true).Foreground(PaletteColor(1)))
			e.s.Show()
		}
	case 10:
		if !w.suspended {
			_ = e.s.Suspend()
			w.suspended = true
			e.h04Restored("after Suspend (mid-history)")
		}
	case 11:
		if w.suspended {
			_ = e.s.Resume()
			w.suspended = false
			e.h04Engaged("after Resume (mid-history)", w)
		}
	}
}

// after Fini or Suspend: every mode restored
func (e *h01Env) h04Restored(what string) {
	vt, ti, t := e.tty.vt, e.t.ti, e.t
	vsymAssert(len(vt.bad) == 0, what+": output is a well-formed ECMA-48 stream")
	vsymAssert(len(e.tty.badOrder) == 0, what+": the Tty is driven in contract order")
	vsymAssert(!vt.alt, what+": the alternate screen has been left")
	if ti.ShowCursor != "" {
		vsymAssert(vt.cursorVis, what+": the cursor is visible")
	}
	vsymAssert(vt.cursorShape == 0, what+": the cursor has its default shape")
	vsymAssert(!vt.cursorColorSet, what+": the cursor has its default colour")
	p := vt.pen
	vsymAssert(p.fg.kind == 0 && p.bg.kind == 0, what+": colours are reset")
	vsymAssert(!p.bold && !p.dim && !p.italic && !p.blink && !p.reverse && !p.strike && p.under == 0, what+": attributes are reset")
	vsymAssert(!vt.keypad && !vt.appCursor && !vt.m4, what+": keypad-application mode is off (whatever the description's keypad string switches: DECKPAM, DECCKM, ?4)")
	vsymAssert(!vt.m1000 && !vt.m1002 && !vt.m1003 && !vt.m1006, what+": mouse tracking is off")
	vsymAssert(!vt.m2004, what+": bracketed paste is off")
	vsymAssert(!vt.m1004, what+": focus reporting is off")
	vsymAssert(vt.autowrap, what+": auto-margin is on again")
	vsymAssert(vt.titleDepth == 0, what+": a saved title has been restored")
	if e.t.saveTitle != "" && e.t.restoreTitle != "" && hEnv("TCELL_ALTSCREEN") != "disable" {
		// the title the terminal had before the application started (empty in the reference terminal)
		vsymAssert(vt.title == "", what+": the restored title is the one saved at start, not the application's")
	}
	vsymAssert(!e.tty.running, what+": the tty has been stopped")
	_ = t
}

// after Init or Resume: exactly the modes the application enabled are on
func (e *h01Env) h04Engaged(what string, w *h04Want) {
	vt, ti, t := e.tty.vt, e.t.ti, e.t
	vsymAssert(len(vt.bad) == 0, what+": output is a well-formed ECMA-48 stream")
	vsymAssert(len(e.tty.badOrder) == 0, what+": the Tty is driven in contract order")
	vsymAssert(e.tty.running, what+": the tty has been started")
	if len(t.mouse) != 0 {
		vsymAssert(vt.m1000 == (w.mouse&MouseButtonEvents != 0), what+": button tracking (1000) is on iff enabled")
		vsymAssert(vt.m1002 == (w.mouse&MouseDragEvents != 0), what+": drag tracking (1002) is on iff enabled")
		vsymAssert(vt.m1003 == (w.mouse&MouseMotionEvents != 0), what+": motion tracking (1003) is on iff enabled")
		vsymAssert(vt.m1006 == (w.mouse != 0), what+": SGR mouse mode (1006) is on iff any tracking is enabled")
	}
	if t.enablePaste != "" {
		vsymAssert(vt.m2004 == w.paste, what+": bracketed paste is on iff enabled")
	}
	if t.enableFocus != "" {
		vsymAssert(vt.m1004 == w.focus, what+": focus reporting is on iff enabled")
	}
	if ti.EnterKeypad != "" {
		// "on" means what the description's own keypad string switches on
		on := true
		if strings.Contains(ti.EnterKeypad, "\x1b=") {
			on = on && vt.keypad
		}
		if strings.Contains(ti.EnterKeypad, "\x1b[?1h") {
			on = on && vt.appCursor
		}
		if strings.Contains(ti.EnterKeypad, "\x1b[?4h") {
			on = on && vt.m4
		}
		vsymAssert(on, what+": keypad-application mode is on")
	}
	if ti.DisableAutoMargin != "" {
		vsymAssert(!vt.autowrap, what+": auto-margin is off while the screen is engaged")
	}
}

// H04_modes: op1 .. opk ; (Fini | Suspend | Suspend;Resume)
func H04_modes() {
	terms := h04Terms()
	term := terms[vsymChoice("term", vsymParam("terms", 4))]
	noalt := vsymChoice("altscreen", 2) == 1
	if noalt {
		vsymSetenv("TCELL_ALTSCREEN", "disable")
	}
	group := vsymChoice("group", 4)
	e := h01New(term, 3, 1, false)
	w := &h04Want{}
	e.h04Engaged("after Init", w)
	if !noalt && e.t.ti.EnterCA != "" {
		vsymAssert(e.tty.vt.alt, "after Init: the alternate screen is entered")
	}
	k := vsymParam("k", 2)
	for i := 0; i < k; i++ {
		e.h04Op("op"+string(rune('0'+i)), w, group)
	}
	switch vsymChoice("end", 3) {
	case 0:
		if w.suspended {
			_ = e.s.Resume()
			w.suspended = false
		}
		e.s.Fini()
		e.h04Restored("after Fini")
		n := len(e.tty.log)
		vsymAssert(n > 0 && e.tty.log[n-1] == "Close", "after Fini: Close is the last Tty call")
		closes := 0
		for _, l := range e.tty.log {
			if l == "Close" {
				closes++
			}
		}
		vsymAssert(closes == 1, "after Fini: the tty is closed exactly once")
		writes := e.tty.writes
		e.s.Fini()
		vsymAssert(e.tty.writes == writes, "a second Fini writes nothing")
	case 1:
		if w.suspended {
			// mode calls made while suspended take effect at Resume; judge a fresh Suspend
			_ = e.s.Resume()
		}
		_ = e.s.Suspend()
		w.suspended = true
		e.h04Restored("after Suspend")
		for _, l := range e.tty.log {
			vsymAssert(l != "Close", "Suspend never closes the tty")
		}
	case 2:
		if !w.suspended {
			_ = e.s.Suspend()
		}
		_ = e.s.Resume()
		w.suspended = false
		e.h04Engaged("after Suspend and Resume", w)
		if !noalt && e.t.ti.EnterCA != "" {
			vsymAssert(e.tty.vt.alt, "after Resume: the alternate screen is entered again")
		}
	}
}

// H04_allterms: every built-in description with CSI cursor addressing (sun's FF-clearing
// pair excepted, as in H01_allterms), TCELL_ALTSCREEN set or not: every mode the terminal
// supports is enabled (mouse with one of four flag sets, paste, focus, a cursor style, a
// title), a frame is drawn; after Suspend everything is restored, after Resume exactly the
// enabled modes are on again, after Fini everything is restored and the tty closed once.
func H04_allterms() {
	ents := terminfo.VerifEntries()
	ti := ents[vsymChoice("term", len(ents))]
	vsymNote("term", ti.Name)
	if !strings.HasPrefix(ti.SetCursor, "\x1b[") || (len(ti.Clear) == 1 && ti.Clear[0] < 0x20) {
		vsymAssert(ti.Name != "xterm-256color", "the ECMA-48 family includes xterm")
		return
	}
	noalt := vsymChoice("altscreen", 2) == 1
	if noalt {
		vsymSetenv("TCELL_ALTSCREEN", "disable")
	}
	e := h01New(ti.Name, 3, 1, false)
	w := &h04Want{}
	e.h04Engaged("after Init", w)
	f := []MouseFlags{0, MouseButtonEvents, MouseDragEvents | MouseButtonEvents, MouseMotionEvents}[vsymChoice("flags", 4)]
	if f == 0 {
		e.s.EnableMouse()
		w.mouse = MouseMotionEvents | MouseDragEvents | MouseButtonEvents
	} else {
		e.s.EnableMouse(f)
		w.mouse = f
	}
	e.s.EnablePaste()
	w.paste = true
	e.s.EnableFocus()
	w.focus = true
	e.s.SetCursorStyle(CursorStyleSteadyBar, PaletteColor(int(vsymByte("cc")&7)))
	e.s.SetTitle("t")
	e.s.ShowCursor(1, 0)
	e.set(0, 0, 'a', nil, StyleDefault.Bold(true).Foreground(PaletteColor(int(vsymByte("fg")&7))))
	e.s.Show()
	e.h04Engaged("after enabling everything", w)
	_ = e.s.Suspend()
	e.h04Restored("after Suspend")
	_ = e.s.Resume()
	e.h04Engaged("after Resume", w)
	if !noalt && e.t.ti.EnterCA != "" {
		vsymAssert(e.tty.vt.alt, "after Resume: the alternate screen is entered again")
	}
	e.s.Show()
	e.s.Fini()
	e.h04Restored("after Fini")
	closes := 0
	for _, l := range e.tty.log {
		if l == "Close" {
			closes++
		}
	}
	vsymAssert(closes == 1, "after Fini: the tty is closed exactly once")
}
