//go:build verif && !js

package tcell

import (
	"bytes"
	"strings"

	"github.com/gdamore/tcell/v2/terminfo"
)

// C14 — the built-in terminal database is complete, well-formed and lookups are stable.

type h14Field struct {
	name  string
	val   string
	arity int
}

func h14ParamFields(ti *terminfo.Terminfo) []h14Field {
	return []h14Field{
		{"SetFg", ti.SetFg, 1}, {"SetBg", ti.SetBg, 1}, {"SetFgBg", ti.SetFgBg, 2},
		{"SetFgRGB", ti.SetFgRGB, 3}, {"SetBgRGB", ti.SetBgRGB, 3}, {"SetFgBgRGB", ti.SetFgBgRGB, 6},
		{"SetCursor", ti.SetCursor, 2}, {"CursorColorRGB", ti.CursorColorRGB, 1}, {"EnterUrl", ti.EnterUrl, 2},
		{"SetWindowSize", ti.SetWindowSize, 2}, {"SetWindowTitle", ti.SetWindowTitle, 1},
		{"UnderlineColor", ti.UnderlineColor, 1}, {"UnderlineColorRGB", ti.UnderlineColorRGB, 3},
	}
}

// highest %pN used by prog
func h14MaxParam(prog string) int {
	m := 0
	for i := 0; i+2 < len(prog); i++ {
		if prog[i] == '%' && prog[i+1] == 'p' && prog[i+2] >= '1' && prog[i+2] <= '9' {
			if n := int(prog[i+2] - '0'); n > m {
				m = n
			}
		}
		if prog[i] == '%' && prog[i+1] == '%' {
			i++
		}
	}
	return m
}

// H14_db: every name and alias resolves to a well-formed entry.
func H14_db() {
	names := terminfo.VerifNames()
	name := names[vsymChoice("name", len(names))]
	vsymNote("name", name)
	ti, err := terminfo.LookupTerminfo(name)
	vsymAssert(err == nil && ti != nil, "every shipped name and alias resolves")
	if ti == nil {
		return
	}
	vsymAssert(ti.SetCursor != "", "entry has cursor addressing")
	for _, f := range h14ParamFields(ti) {
		if f.val == "" {
			continue
		}
		vsymAssert(h14MaxParam(f.val) <= f.arity, "field "+f.name+" uses only the parameters the library supplies")
		// well-formed terminfo program: the reference interpreter accepts it on both sides of its conditionals
		for _, v := range []int{0, 9, 300} {
			args := []interface{}{v, v, v, v, v, v}
			if strings.Contains(f.val, "%s") {
				args = []interface{}{"x", "y"}
			}
			_, ok := refTParm(f.val, args...)
			vsymAssert(ok, "field "+f.name+" is a well-formed terminfo program")
		}
	}
	hasColorStrings := ti.SetFg != "" || ti.SetFgBg != ""
	vsymAssert((ti.Colors > 0) == hasColorStrings, "colour count is consistent with the colour strings")
	if ti.Colors > 0 {
		vsymAssert(ti.SetBg != "" || ti.SetFgBg != "", "colour terminals can set the background")
	}
	// key sequences: none is a proper prefix of another
	s, e := NewTerminfoScreenFromTtyTerminfo(nil, ti)
	vsymAssert(e == nil, "a screen can be constructed for the entry")
	if e != nil {
		return
	}
	t := s.(*baseScreen).screenImpl.(*tScreen)
	var keys []string
	for k := range t.keycodes {
		keys = append(keys, k)
	}
	bad := ""
	for i, a := range keys {
		for j, b := range keys {
			if i != j && len(a) < len(b) && bytes.HasPrefix([]byte(b), []byte(a)) && !(len(a) == 1 && a[0] == 0x1b) {
				bad = a + " < " + b
			}
		}
	}
	vsymNote("prefix", bad)
	vsymAssert(bad == "", "no key sequence is a proper prefix of another")
}

func h14Env2() {
	// the environment changes between two lookups
	switch vsymChoice("colorterm2", 3) {
	case 1:
		vsymSetenv("COLORTERM", "truecolor")
	case 2:
		vsymSetenv("COLORTERM", "")
	}
	switch vsymChoice("tcell_truecolor2", 3) {
	case 1:
		vsymSetenv("TCELL_TRUECOLOR", "disable")
	case 2:
		vsymSetenv("TCELL_TRUECOLOR", "")
	}
}

func h14Env() {
	switch vsymChoice("colorterm", 5) {
	case 1:
		vsymSetenv("COLORTERM", "truecolor")
	case 2:
		vsymSetenv("COLORTERM", "24bit")
	case 3:
		vsymSetenv("COLORTERM", "24-bit")
	case 4:
		vsymSetenv("COLORTERM", "yes")
	}
	switch vsymChoice("tcell_truecolor", 3) {
	case 1:
		vsymSetenv("TCELL_TRUECOLOR", "disable")
	case 2:
		vsymSetenv("TCELL_TRUECOLOR", "1")
	}
}

func h14Variant(base string, k int) string {
	switch k {
	case 1:
		return base + "-256color"
	case 2:
		return base + "-truecolor"
	case 3:
		return base + "-nosuch"
	}
	return base
}

// H14_lookup: what a lookup returns does not depend on earlier lookups; synthesized
// entries have the standard sequences; the environment switches direct colour.
func H14_lookup() {
	h14Env()
	ents := terminfo.VerifEntries()
	base := ents[vsymChoice("base", len(ents))].Name
	n1 := h14Variant(base, vsymChoice("first", 3))
	n2 := h14Variant(base, vsymChoice("second", 4))
	vsymNote("first", n1)
	vsymNote("second", n2)
	backup := terminfo.VerifBackup()
	names := terminfo.VerifNames()
	// after another lookup made under the first environment ...
	_, _ = terminfo.LookupTerminfo(n1)
	// ... the environment may change ...
	h14Env2()
	g, gerr := terminfo.LookupTerminfo(n2)
	var after terminfo.Terminfo
	if g != nil {
		after = *g
	}
	// ... and the answer must be what a fresh database gives under the current environment
	terminfo.VerifRestore(backup)
	terminfo.VerifForget(names)
	f, ferr := terminfo.LookupTerminfo(n2)
	var fresh terminfo.Terminfo
	if f != nil {
		fresh = *f
	}
	if g != nil {
		g = &after
	}
	vsymAssert((ferr == nil) == (gerr == nil), "whether a name resolves does not depend on earlier lookups")
	if f != nil && g != nil {
		vsymAssert(vsymStructEq(&fresh, g), "the entry a lookup returns does not depend on earlier lookups")
	}
	if strings.HasSuffix(n2, "-nosuch") {
		vsymAssert(ferr == terminfo.ErrTermNotFound && f == nil, "unknown names fail with ErrTermNotFound")
	}
	if f == nil {
		return
	}
	// synthesis and environment
	if strings.HasSuffix(n2, "-truecolor") && !terminfoHasRGB(backup, n2) {
		// direct colour unless TCELL_TRUECOLOR=disable
		if hEnv("TCELL_TRUECOLOR") != "disable" {
			vsymAssert(fresh.SetFgRGB == "\x1b[38;2;%p1%d;%p2%d;%p3%dm" && fresh.SetBgRGB == "\x1b[48;2;%p1%d;%p2%d;%p3%dm", "NAME-truecolor has the standard 24-bit sequences")
		}
	}
	if hEnv("TCELL_TRUECOLOR") == "disable" {
		// the lookup itself never adds 24-bit sequences: whatever RGB strings the answer has,
		// a registered entry it can be derived from has natively
		native := false
		stem := n2
		for _, sfx := range []string{"-truecolor", "-256color"} {
			if strings.HasSuffix(stem, sfx) {
				stem = stem[:len(stem)-len(sfx)]
			}
		}
		for _, cand := range []string{n2, stem + "-256color", stem + "-88color", stem + "-color", stem} {
			if terminfoHasRGB(backup, cand) {
				native = true
			}
		}
		if !native {
			vsymAssert(fresh.SetFgRGB == "" && fresh.SetBgRGB == "" && fresh.SetFgBgRGB == "", "TCELL_TRUECOLOR=disable: a lookup synthesizes no 24-bit sequences")
		}
		// judged where it takes effect: a screen built on the returned entry does not use direct colour
		fc := fresh
		if s, e := NewTerminfoScreenFromTtyTerminfo(newHTty(3, 1), &fc); e == nil && s.Init() == nil {
			vsymAssert(!s.(*baseScreen).screenImpl.(*tScreen).truecolor, "TCELL_TRUECOLOR=disable switches direct colour off")
		}
	}
	if c := hEnv("COLORTERM"); (c == "truecolor" || c == "24bit" || c == "24-bit") && hEnv("TCELL_TRUECOLOR") != "disable" {
		vsymAssert(fresh.SetFgRGB != "" || fresh.SetFgBgRGB != "", "COLORTERM=truecolor switches direct colour on")
	}
	if strings.HasSuffix(n2, "-256color") && terminfo.VerifGet(n2) == nil {
		vsymAssert(fresh.Colors == 256 && strings.Contains(fresh.SetFg, "38;5;%p1%d"), "NAME-256color has the standard 256-colour sequences")
	}
}

func terminfoHasRGB(backup map[*terminfo.Terminfo]terminfo.Terminfo, name string) bool {
	t := terminfo.VerifGet(name)
	if t == nil {
		return false
	}
	b := backup[t]
	return b.SetFgRGB != "" || b.SetFgBgRGB != "" || b.SetBgRGB != "" || b.TrueColor
}

// H14_names: for every string of up to 8 printable bytes, the lookup succeeds
// exactly for registered names (and suffix-synthesized variants) and fails with ErrTermNotFound otherwise.
func H14_names() {
	n := 1 + vsymChoice("len", vsymParam("maxlen", 8))
	b := make([]byte, n)
	for i := range b {
		b[i] = vsymByte("name")
		vsymAssume(vsymAnd(b[i] >= 0x21, b[i] <= 0x7e))
	}
	name := string(b)
	registered := false
	for _, r := range terminfo.VerifNames() {
		if r == name {
			registered = true
		}
	}
	ti, err := terminfo.LookupTerminfo(name)
	if registered {
		vsymAssert(err == nil && ti != nil, "a registered name resolves")
		if ti != nil {
			isName := ti.Name == name
			for _, a := range ti.Aliases {
				if a == name {
					isName = true
				}
			}
			vsymAssert(isName, "a registered name resolves to the entry that carries it as name or alias")
		}
	} else if strings.HasSuffix(name, "-256color") || strings.HasSuffix(name, "-truecolor") {
		vsymAssert(err == nil || err == terminfo.ErrTermNotFound, "suffix forms resolve or fail cleanly")
	} else {
		vsymAssert(err == terminfo.ErrTermNotFound && ti == nil, "an unknown name fails with ErrTermNotFound")
	}
}

// H14_fgbg: for every entry - and for the NAME-256color entry LookupTerminfo fabricates when
// only NAME-color or NAME-88color is registered - the combined colour string agrees with the
// separate ones: SetFgBg(f, b) selects exactly what SetFg(f) followed by SetBg(b) selects,
// for every symbolic f, b below the colour count.
func H14_fgbg() {
	ents := terminfo.VerifEntries()
	base := ents[vsymChoice("base", len(ents))]
	name := base.Name
	if vsymChoice("variant", 2) == 1 {
		stem := name
		for _, sfx := range []string{"-88color", "-color"} {
			if strings.HasSuffix(stem, sfx) {
				stem = stem[:len(stem)-len(sfx)]
			}
		}
		name = stem + "-256color"
		if terminfo.VerifGet(name) != nil {
			vsymCutPath("registered, not fabricated")
		}
	}
	vsymNote("name", name)
	ti, err := terminfo.LookupTerminfo(name)
	if err != nil || ti == nil {
		vsymCutPath("no such entry")
	}
	if ti.SetFg == "" || ti.SetBg == "" || ti.SetFgBg == "" || !strings.HasPrefix(ti.SetFg, "\x1b[") {
		vsymAssert(ti.Colors < 256 || name == base.Name, "a fabricated 256-colour entry has all three colour strings")
		return
	}
	f, b := vsymInt("f"), vsymInt("b")
	vsymAssume(vsymAnd(vsymAnd(f >= 0, f < ti.Colors), vsymAnd(b >= 0, b < ti.Colors)))
	sf, sb, sfb := ti.TParm(ti.SetFg, f), ti.TParm(ti.SetBg, b), ti.TParm(ti.SetFgBg, f, b)
	ok := len(sf) > 3 && len(sb) > 3 && sf[len(sf)-1] == 'm' && sb[len(sb)-1] == 'm' && strings.HasPrefix(sb, "\x1b[")
	if !ok {
		return // not plain SGR strings: nothing to combine
	}
	want := sf[:len(sf)-1] + ";" + sb[2:]
	// some descriptions separate the two halves with an empty parameter (";;"), which SGR ignores
	want2 := sf[:len(sf)-1] + ";;" + sb[2:]
	vsymAssert(sfb == want || sfb == want2, "SetFgBg(f,b) selects what SetFg(f) and SetBg(b) select: "+name)
}
