//go:build verif

package terminfo

import "sort"

// Exported accessors for harnesses living in package tcell (which links the
// whole database through terminfo/extended).

// VerifEntries returns the distinct database entries in a deterministic order.
func VerifEntries() []*Terminfo {
	var names []string
	for n := range terminfos {
		names = append(names, n)
	}
	sort.Strings(names)
	seen := map[*Terminfo]bool{}
	var out []*Terminfo
	for _, n := range names {
		t := terminfos[n]
		if !seen[t] {
			seen[t] = true
			out = append(out, t)
		}
	}
	return out
}

// VerifNames returns every registered name and alias, sorted.
func VerifNames() []string {
	var names []string
	for n := range terminfos {
		names = append(names, n)
	}
	sort.Strings(names)
	return names
}

// VerifGet returns the registered entry for a name without any synthesis.
func VerifGet(name string) *Terminfo { return terminfos[name] }

// VerifBackup copies every registered entry; VerifRestore writes the copies back
// (a fresh database for the order-independence check).
func VerifBackup() map[*Terminfo]Terminfo {
	b := map[*Terminfo]Terminfo{}
	for _, t := range terminfos {
		b[t] = *t
	}
	return b
}

func VerifRestore(b map[*Terminfo]Terminfo) {
	for p, v := range b {
		*p = v
	}
}

// VerifForget removes every name that is not in keep (names registered by lookups).
func VerifForget(keep []string) {
	k := map[string]bool{}
	for _, n := range keep {
		k[n] = true
	}
	for n := range terminfos {
		if !k[n] {
			delete(terminfos, n)
		}
	}
}
