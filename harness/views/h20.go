//go:build verif

package views

import (
	"github.com/gdamore/tcell/v2"
)

// C20 — ViewPort geometry (pure integer arithmetic, one step from an arbitrary state).

// h20Rec is a recording parent View.
type h20Rec struct {
	w, h   int
	calls  int
	lx, ly int
}

func (r *h20Rec) SetContent(x, y int, ch rune, comb []rune, s tcell.Style) {
	r.calls++
	r.lx, r.ly = x, y
}
func (r *h20Rec) Size() (int, int)         { return r.w, r.h }
func (r *h20Rec) Resize(x, y, w, h int)    {}
func (r *h20Rec) Fill(rune, tcell.Style)   {}
func (r *h20Rec) Clear()                   {}

const h20Lim = 1 << 31

func h20Bounded(name string) int {
	v := vsymInt(name)
	vsymAssume(v > -h20Lim && v < h20Lim)
	return v
}

// h20Arb builds a ViewPort whose every field is symbolic (|value| < 2^31).
func h20Arb(parent View) *ViewPort {
	return &ViewPort{
		physx: h20Bounded("physx"), physy: h20Bounded("physy"),
		viewx: h20Bounded("viewx"), viewy: h20Bounded("viewy"),
		limx: h20Bounded("limx"), limy: h20Bounded("limy"),
		width: h20Bounded("width"), height: h20Bounded("height"),
		locked: vsymBool("locked"),
		v:      parent,
	}
}

// H20_vp_setcontent: content reaches the parent only inside the ViewPort's
// rectangle, at content - scroll offset + origin; visible content is forwarded.
func H20_vp_setcontent() {
	rec := &h20Rec{w: h20Bounded("pw"), h: h20Bounded("ph")}
	v := h20Arb(rec)
	x, y := h20Bounded("x"), h20Bounded("y")
	physx, physy, viewx, viewy, width, height := v.physx, v.physy, v.viewx, v.viewy, v.width, v.height
	v.SetContent(x, y, 'a', nil, tcell.StyleDefault)
	vsymAssert(rec.calls <= 1, "at most one cell is written to the parent")
	visible := vsymAnd(vsymAnd(x >= viewx, x < viewx+width), vsymAnd(y >= viewy, y < viewy+height))
	if rec.calls == 1 {
		vsymAssert(rec.lx == x-viewx+physx, "parent column = content column - scroll offset + origin")
		vsymAssert(rec.ly == y-viewy+physy, "parent row = content row - scroll offset + origin")
		vsymAssert(vsymAnd(rec.lx >= physx, rec.lx < physx+width), "parent column lies inside the ViewPort's rectangle")
		vsymAssert(vsymAnd(rec.ly >= physy, rec.ly < physy+height), "parent row lies inside the ViewPort's rectangle")
		vsymAssert(visible, "only visible content is forwarded")
	} else {
		vsymAssert(!visible, "visible content is forwarded to the parent")
	}
	// content size grows only when unlocked
	lx, ly := v.GetContentSize()
	vsymAssert(lx >= x || v.locked, "unlocked content width grows to include the drawn column")
	vsymAssert(ly >= y || v.locked, "unlocked content height grows to include the drawn row")
}

func h20ValidX(v *ViewPort) bool {
	return vsymAnd(v.viewx >= 0, vsymImplies(v.limx > v.width, v.viewx+v.width <= v.limx))
}

func h20ValidY(v *ViewPort) bool {
	return vsymAnd(v.viewy >= 0, vsymImplies(v.limy > v.height, v.viewy+v.height <= v.limy))
}

// H20_vp_scroll: after any scrolling/centring/sizing call the moved axis has
// offset >= 0 and offset+size <= content size whenever the content is larger than the view.
func H20_vp_scroll() {
	rec := &h20Rec{w: h20Bounded("pw"), h: h20Bounded("ph")}
	v := h20Arb(rec)
	a, b := h20Bounded("a"), h20Bounded("b")
	switch vsymChoice("op", 8) {
	case 0:
		v.ScrollUp(a)
		vsymAssert(h20ValidY(v), "ScrollUp keeps the window inside the content (Y)")
	case 1:
		v.ScrollDown(a)
		vsymAssert(h20ValidY(v), "ScrollDown keeps the window inside the content (Y)")
	case 2:
		v.ScrollLeft(a)
		vsymAssert(h20ValidX(v), "ScrollLeft keeps the window inside the content (X)")
	case 3:
		v.ScrollRight(a)
		vsymAssert(h20ValidX(v), "ScrollRight keeps the window inside the content (X)")
	case 4:
		ox, oy := v.viewx, v.viewy
		okx, oky := h20ValidX(v), h20ValidY(v)
		v.Center(a, b)
		// Center either leaves the view untouched (point outside the content) or validates both axes
		moved := vsymOr(v.viewx != ox, v.viewy != oy)
		vsymAssert(vsymImplies(moved, vsymAnd(h20ValidX(v), h20ValidY(v))), "Center keeps the window inside the content")
		vsymAssert(vsymImplies(vsymAnd(okx, oky), vsymAnd(h20ValidX(v), h20ValidY(v))), "Center preserves a valid window")
	case 5:
		v.MakeVisible(a, b)
		vsymAssert(vsymAnd(h20ValidX(v), h20ValidY(v)), "MakeVisible keeps the window inside the content")
	case 6:
		v.SetSize(a, b)
		vsymAssert(vsymAnd(h20ValidX(v), h20ValidY(v)), "SetSize keeps the window inside the content")
		w, h := v.Size()
		vsymAssert(w == a && h == b, "SetSize sets the visible size")
	case 7:
		v.SetContentSize(a, b, vsymBool("lock"))
		vsymAssert(vsymAnd(h20ValidX(v), h20ValidY(v)), "SetContentSize keeps the window inside the content")
	}
}

// H20_vp_makevisible: after MakeVisible(x,y) of a point inside the content, the point is visible.
func H20_vp_makevisible() {
	rec := &h20Rec{w: h20Bounded("pw"), h: h20Bounded("ph")}
	v := h20Arb(rec)
	x, y := h20Bounded("x"), h20Bounded("y")
	vsymAssume(v.width > 0 && v.height > 0)
	vsymAssume(x >= 0 && x < v.limx && y >= 0 && y < v.limy)
	vsymAssume(h20ValidX(v))
	vsymAssume(h20ValidY(v))
	v.MakeVisible(x, y)
	x1, y1, x2, y2 := v.GetVisible()
	vsymAssert(vsymAnd(x >= x1, x <= x2), "MakeVisible makes the column visible")
	vsymAssert(vsymAnd(y >= y1, y <= y2), "MakeVisible makes the row visible")
}
