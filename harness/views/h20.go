//go:build verif

package views

import (
	"github.com/gdamore/tcell/v2"
)

// C20 — ViewPort geometry (pure integer arithmetic, one step from an arbitrary state).

// h20Rec is a recording parent View.
type h20Rec struct {
	w, h   int
	calls  int
	lx, ly int
}

func (r *h20Rec) SetContent(x, y int, ch rune, comb []rune, s tcell.Style) {
	r.calls++
	r.lx, r.ly = x, y
}
func (r *h20Rec) Size() (int, int)         { return r.w, r.h }
func (r *h20Rec) Resize(x, y, w, h int)    {}
func (r *h20Rec) Fill(rune, tcell.Style)   {}
func (r *h20Rec) Clear()                   {}

const h20Lim = 1 << 31

func h20Bounded(name string) int {
	v := vsymInt(name)
	vsymAssume(v > -h20Lim && v < h20Lim)
	return v
}

// h20Arb builds a ViewPort whose every field is symbolic (|value| < 2^31).
func h20Arb(parent View) *ViewPort {
	return &ViewPort{
		physx: h20Bounded("physx"), physy: h20Bounded("physy"),
		viewx: h20Bounded("viewx"), viewy: h20Bounded("viewy"),
		limx: h20Bounded("limx"), limy: h20Bounded("limy"),
		width: h20Bounded("width"), height: h20Bounded("height"),
		locked: vsymBool("locked"),
		v:      parent,
	}
}

// H20_vp_setcontent: content reaches the parent only inside the ViewPort's
// rectangle, at content - scroll offset + origin; visible content is forwarded.
func H20_vp_setcontent() {
	rec := &h20Rec{w: h20Bounded("pw"), h: h20Bounded("ph")}
	v := h20Arb(rec)
	x, y := h20Bounded("x"), h20Bounded("y")
	physx, physy, viewx, viewy, width, height := v.physx, v.physy, v.viewx, v.viewy, v.width, v.height
	v.SetContent(x, y, 'a', nil, tcell.StyleDefault)
	vsymAssert(rec.calls <= 1, "at most one cell is written to the parent")
	visible := vsymAnd(vsymAnd(x >= viewx, x < viewx+width), vsymAnd(y >= viewy, y < viewy+height))
	if rec.calls == 1 {
		vsymAssert(rec.lx == x-viewx+physx, "parent column = content column - scroll offset + origin")
		vsymAssert(rec.ly == y-viewy+physy, "parent row = content row - scroll offset + origin")
		vsymAssert(vsymAnd(rec.lx >= physx, rec.lx < physx+width), "parent column lies inside the ViewPort's rectangle")
		vsymAssert(vsymAnd(rec.ly >= physy, rec.ly < physy+height), "parent row lies inside the ViewPort's rectangle")
		vsymAssert(visible, "only visible content is forwarded")
	} else {
		vsymAssert(!visible, "visible content is forwarded to the parent")
	}
	// content size grows only when unlocked
	lx, ly := v.GetContentSize()
	vsymAssert(lx >= x || v.locked, "unlocked content width grows to include the drawn column")
	vsymAssert(ly >= y || v.locked, "unlocked content height grows to include the drawn row")
}

func h20ValidX(v *ViewPort) bool {
	return vsymAnd(v.viewx >= 0, vsymImplies(v.limx > v.width, v.viewx+v.width <= v.limx))
}

func h20ValidY(v *ViewPort) bool {
	return vsymAnd(v.viewy >= 0, vsymImplies(v.limy > v.height, v.viewy+v.height <= v.limy))
}

// H20_vp_scroll: after any scrolling/centring/sizing call the moved axis has
// offset >= 0 and offset+size <= content size whenever the content is larger than the view.
func H20_vp_scroll() {
	rec := &h20Rec{w: h20Bounded("pw"), h: h20Bounded("ph")}
	v := h20Arb(rec)
	a, b := h20Bounded("a"), h20Bounded("b")
	switch vsymChoice("op", 8) {
	case 0:
		v.ScrollUp(a)
		vsymAssert(h20ValidY(v), "ScrollUp keeps the window inside the content (Y)")
	case 1:
		v.ScrollDown(a)
		vsymAssert(h20ValidY(v), "ScrollDown keeps the window inside the content (Y)")
	case 2:
		v.ScrollLeft(a)
		vsymAssert(h20ValidX(v), "ScrollLeft keeps the window inside the content (X)")
	case 3:
		v.ScrollRight(a)
		vsymAssert(h20ValidX(v), "ScrollRight keeps the window inside the content (X)")
	case 4:
		ox, oy := v.viewx, v.viewy
		okx, oky := h20ValidX(v), h20ValidY(v)
		v.Center(a, b)
		// Center either leaves the view untouched (point outside the content) or validates both axes
		moved := vsymOr(v.viewx != ox, v.viewy != oy)
		vsymAssert(vsymImplies(moved, vsymAnd(h20ValidX(v), h20ValidY(v))), "Center keeps the window inside the content")
		vsymAssert(vsymImplies(vsymAnd(okx, oky), vsymAnd(h20ValidX(v), h20ValidY(v))), "Center preserves a valid window")
	case 5:
		v.MakeVisible(a, b)
		vsymAssert(vsymAnd(h20ValidX(v), h20ValidY(v)), "MakeVisible keeps the window inside the content")
	case 6:
		v.SetSize(a, b)
		vsymAssert(vsymAnd(h20ValidX(v), h20ValidY(v)), "SetSize keeps the window inside the content")
		w, h := v.Size()
		vsymAssert(w == a && h == b, "SetSize sets the visible size")
	case 7:
		v.SetContentSize(a, b, vsymBool("lock"))
		vsymAssert(vsymAnd(h20ValidX(v), h20ValidY(v)), "SetContentSize keeps the window inside the content")
	}
}

// H20_vp_makevisible: after MakeVisible(x,y) of a point inside the content, the point is visible.
func H20_vp_makevisible() {
	rec := &h20Rec{w: h20Bounded("pw"), h: h20Bounded("ph")}
	v := h20Arb(rec)
	x, y := h20Bounded("x"), h20Bounded("y")
	vsymAssume(v.width > 0 && v.height > 0)
	vsymAssume(x >= 0 && x < v.limx && y >= 0 && y < v.limy)
	vsymAssume(h20ValidX(v))
	vsymAssume(h20ValidY(v))
	v.MakeVisible(x, y)
	x1, y1, x2, y2 := v.GetVisible()
	vsymAssert(vsymAnd(x >= x1, x <= x2), "MakeVisible makes the column visible")
	vsymAssert(vsymAnd(y >= y1, y <= y2), "MakeVisible makes the row visible")
}

// ---- BoxLayout (float64 surplus distribution; concrete fill factors, symbolic sizes)

type h20Widget struct {
	w, h int
	view View
	WidgetWatchers
}

func (w *h20Widget) Draw()                           {}
func (w *h20Widget) Resize()                         {}
func (w *h20Widget) HandleEvent(ev tcell.Event) bool { return false }
func (w *h20Widget) SetView(v View)                  { w.view = v }
func (w *h20Widget) Size() (int, int)                { return w.w, w.h }

// H20_box: children are placed in order along the axis, disjoint, inside the
// parent; each gets at least its preferred extent when space suffices; the
// surplus is distributed exactly and in proportion to the fill factors.
func H20_box() { h20Box(false) }

// H20_boxc: the same judgement with every size drawn from a small menu (no floating-point
// solver queries: the engine folds the layout arithmetic to constants and executes every
// combination) - the quick-tier form, and the one that reaches three and four children.
func H20_boxc() { h20Box(true) }

func h20Box(concrete bool) {
	vsymSetenv("VSYM_CLOCK", "concrete")
	n := vsymParam("minchildren", 1) + vsymChoice("children", vsymParam("maxchildren", 2)-vsymParam("minchildren", 1)+1)
	horiz := vsymChoice("orient", 2) == 0
	fillMenu := []float64{0, 1, 2, 0.5, 3}[:vsymParam("fillmenu", 5)]
	// sizes: symbolic (floating-point queries: thorough tier), or - job parameter concrete=1 -
	// from small menus, which the engine folds to constants (every combination is executed)
	var pw, ph int
	lim := vsymParam("maxsize", 4096)
	if concrete {
		pw = vsymChoice("pw", vsymParam("extents", 14))
		ph = pw
	} else {
		pw, ph = vsymInt("pw"), vsymInt("ph")
		vsymAssume(vsymAnd(vsymAnd(pw >= 0, pw <= lim), vsymAnd(ph >= 0, ph <= lim)))
	}
	parent := &h20Rec{w: pw, h: ph}
	var b *BoxLayout
	if horiz {
		b = NewBoxLayout(Horizontal)
	} else {
		b = NewBoxLayout(Vertical)
	}
	b.SetView(parent)
	ws := make([]*h20Widget, n)
	fills := make([]float64, n)
	totf := 0.0
	for i := 0; i < n; i++ {
		var sz int
		if concrete {
			sz = 1 + vsymChoice("size", vsymParam("sizes", 2))
		} else {
			sz = vsymInt("size")
			vsymAssume(vsymAnd(sz >= 0, sz <= lim))
		}
		ws[i] = &h20Widget{w: sz, h: sz}
		fills[i] = fillMenu[vsymChoice("fill", len(fillMenu))]
		totf += fills[i]
	}
	// add in order, the last one by InsertWidget at the end (same result as AddWidget)
	for i := 0; i < n; i++ {
		if i == n-1 && vsymChoice("how", 2) == 1 {
			b.InsertWidget(n, ws[i], fills[i])
		} else {
			b.AddWidget(ws[i], fills[i])
		}
	}
	b.Resize()
	want := 0 // total preferred extent
	for i := 0; i < n; i++ {
		want += ws[i].w
	}
	avail := pw
	if !horiz {
		avail = ph
	}
	surplus := avail - want
	if surplus < 0 {
		surplus = 0
	}
	pos := 0
	padSum := 0
	for i, c := range b.cells {
		vsymAssert(c.widget == Widget(ws[i]), "children are kept in insertion order")
		v := c.view
		start, ext := v.physx, v.width
		if !horiz {
			start, ext = v.physy, v.height
		}
		pad := ext - ws[i].w
		if want <= avail {
			if ext > 0 {
				// a zero-extent child occupies no cell; its recorded origin is immaterial
				vsymAssert(start == pos, "children are placed one after the other along the axis (disjoint, in order)")
			}
			vsymAssert(ext >= ws[i].w, "each child gets at least its preferred extent when space suffices")
			vsymAssert(start+ext <= avail, "each child lies inside the parent's view")
			vsymAssert(pad == c.pad, "extent = preferred extent + padding")
			if fills[i] == 0 {
				vsymAssert(pad == 0, "a child with fill factor 0 gets no surplus")
			}
			if totf > 0 && fills[i] > 0 {
				share := float64(surplus) * fills[i] / totf
				fl := int(share)
				vsymAssert(pad == fl || pad == fl+1, "padding is the proportional share rounded down or up")
			}
			padSum += pad
		}
		pos += ext
	}
	if want <= avail && totf > 0 {
		vsymAssert(padSum == surplus, "the surplus is distributed exactly, cell for cell")
	}
	// removal re-lays out
	if n >= 2 && want <= avail {
		b.RemoveWidget(ws[0])
		vsymAssert(len(b.cells) == n-1 && b.cells[0].widget == Widget(ws[1]), "RemoveWidget removes exactly that child")
		v := b.cells[0].view
		if horiz && v.width > 0 {
			vsymAssert(v.physx == 0, "after removal the first remaining child starts at the origin")
		} else if !horiz && v.height > 0 {
			vsymAssert(v.physy == 0, "after removal the first remaining child starts at the origin")
		}
	}
}

// H20_box_overflow: children whose preferred extents overflow the view (fill 0,
// integer arithmetic only): the non-empty child rectangles stay pairwise
// disjoint and inside the parent's view.
func H20_box_overflow() {
	vsymSetenv("VSYM_CLOCK", "concrete")
	n := 2 + vsymChoice("children", 2)
	horiz := vsymChoice("orient", 2) == 0
	lim := vsymParam("maxsize", 40)
	pw, ph := vsymInt("pw"), vsymInt("ph")
	vsymAssume(vsymAnd(vsymAnd(pw >= 0, pw <= lim), vsymAnd(ph >= 0, ph <= lim)))
	parent := &h20Rec{w: pw, h: ph}
	var b *BoxLayout
	if horiz {
		b = NewBoxLayout(Horizontal)
	} else {
		b = NewBoxLayout(Vertical)
	}
	b.SetView(parent)
	for i := 0; i < n; i++ {
		sz := vsymInt("size")
		vsymAssume(vsymAnd(sz >= 0, sz <= lim))
		b.AddWidget(&h20Widget{w: sz, h: sz}, 0)
	}
	b.Resize()
	avail := pw
	if !horiz {
		avail = ph
	}
	type iv struct{ lo, hi int }
	var rects []iv
	for _, c := range b.cells {
		v := c.view
		lo, ext := v.physx, v.width
		if !horiz {
			lo, ext = v.physy, v.height
		}
		rects = append(rects, iv{lo, lo + ext})
	}
	for i := range rects {
		ne := rects[i].hi > rects[i].lo
		vsymAssert(vsymImplies(ne, vsymAnd(rects[i].lo >= 0, rects[i].hi <= avail)), "a non-empty child rectangle lies inside the parent's view, also when the children overflow it")
		for j := i + 1; j < len(rects); j++ {
			nj := rects[j].hi > rects[j].lo
			disjoint := vsymOr(rects[i].hi <= rects[j].lo, rects[j].hi <= rects[i].lo)
			vsymAssert(vsymImplies(vsymAnd(ne, nj), disjoint), "non-empty child rectangles are pairwise disjoint, also when the children overflow the view")
		}
	}
}
