//go:build verif

package encoding

import (
	"unicode/utf8"

	"github.com/gdamore/tcell/v2"
	xenc "golang.org/x/text/encoding"
	"golang.org/x/text/encoding/charmap"
	"golang.org/x/text/encoding/japanese"
	"golang.org/x/text/encoding/korean"
	"golang.org/x/text/encoding/simplifiedchinese"
	"golang.org/x/text/encoding/traditionalchinese"
)

// C17 / C11 — the charsets the encoding package registers are the charsets their names say.
//
// Reference: an independent name -> table map (the x/text charmaps, also for Latin-1 and
// Latin-5, which the package takes from gdamore/encoding: two implementations of the same
// standard), plus one signature code point per name that distinguishes it from its siblings.

type h17eSB struct {
	name string
	ref  xenc.Encoding
	sigB byte
	sigR rune
}

var h17eSingle = []h17eSB{
	{"ISO8859-1", charmap.ISO8859_1, 0xd0, 0x00d0}, {"ISO8859-2", charmap.ISO8859_2, 0xa1, 0x0104},
	{"ISO8859-3", charmap.ISO8859_3, 0xa1, 0x0126}, {"ISO8859-4", charmap.ISO8859_4, 0xa2, 0x0138},
	{"ISO8859-5", charmap.ISO8859_5, 0xa1, 0x0401}, {"ISO8859-6", charmap.ISO8859_6, 0xc1, 0x0621},
	{"ISO8859-7", charmap.ISO8859_7, 0xc1, 0x0391}, {"ISO8859-8", charmap.ISO8859_8, 0xe0, 0x05d0},
	{"ISO8859-9", charmap.ISO8859_9, 0xd0, 0x011e}, {"ISO8859-10", charmap.ISO8859_10, 0xa2, 0x0112},
	{"ISO8859-13", charmap.ISO8859_13, 0xa1, 0x201d}, {"ISO8859-14", charmap.ISO8859_14, 0xa1, 0x1e02},
	{"ISO8859-15", charmap.ISO8859_15, 0xa4, 0x20ac}, {"ISO8859-16", charmap.ISO8859_16, 0xa2, 0x0105},
	{"KOI8-R", charmap.KOI8R, 0xa4, 0x2553}, {"KOI8-U", charmap.KOI8U, 0xa4, 0x0454},
}

func h17eDecode(e xenc.Encoding, in []byte) (rune, bool) {
	dst := make([]byte, 8)
	n, nsrc, err := e.NewDecoder().Transform(dst, in, true)
	if err != nil || n == 0 || nsrc != len(in) {
		return 0, false
	}
	r, sz := utf8.DecodeRune(dst[:n])
	if sz != n {
		return 0, false
	}
	return r, true
}

// H17e_single: every single-byte charset registered under its name decodes every byte
// >= 0x80 to the rune the reference table for that name gives (and encodes it back).
func H17e_single() {
	c := h17eSingle[vsymChoice("charset", len(h17eSingle))]
	vsymNote("charset", c.name)
	enc := tcell.GetEncoding(c.name)
	vsymAssert(enc != nil, "the charset is registered: "+c.name)
	if enc == nil {
		return
	}
	r0, ok0 := h17eDecode(enc, []byte{c.sigB})
	vsymAssert(ok0 && r0 == c.sigR, "the registered charset has its name's signature code point: "+c.name)
	b := vsymByte("b")
	vsymAssume(b >= 0x80)
	got, okG := h17eDecode(enc, []byte{b})
	want, okW := h17eDecode(c.ref, []byte{b})
	if !okW || want == utf8.RuneError {
		return // undefined in the reference table
	}
	vsymAssert(okG && got == want, "the registered charset decodes each byte as the reference table for its name: "+c.name)
	// and the encoder is its inverse
	src := make([]byte, 4)
	n := utf8.EncodeRune(src, want)
	out := make([]byte, 4)
	m, _, err := enc.NewEncoder().Transform(out, src[:n], true)
	vsymAssert(err == nil && m == 1 && out[0] == b, "the registered charset encodes the rune back to the byte: "+c.name)
}

// H17e_multi: the double-byte charsets are registered under their names (signature characters).
func H17e_multi() {
	type mb struct {
		name string
		ref  xenc.Encoding
		in   []byte
		r    rune
	}
	tab := []mb{
		{"EUC-JP", japanese.EUCJP, []byte{0xa4, 0xa2}, 0x3042}, {"SHIFT_JIS", japanese.ShiftJIS, []byte{0x82, 0xa0}, 0x3042},
		{"EUC-KR", korean.EUCKR, []byte{0xb0, 0xa1}, 0xac00}, {"GBK", simplifiedchinese.GBK, []byte{0xd6, 0xd0}, 0x4e2d},
		{"GB18030", simplifiedchinese.GB18030, []byte{0xd6, 0xd0}, 0x4e2d}, {"Big5", traditionalchinese.Big5, []byte{0xa4, 0xa4}, 0x4e2d},
	}
	c := tab[vsymChoice("charset", len(tab))]
	vsymNote("charset", c.name)
	enc := tcell.GetEncoding(c.name)
	vsymAssert(enc != nil, "the charset is registered: "+c.name)
	if enc == nil {
		return
	}
	r, ok := h17eDecode(enc, c.in)
	vsymAssert(ok && r == c.r, "the registered charset has its name's signature character: "+c.name)
	r2, ok2 := h17eDecode(c.ref, c.in)
	vsymAssert(ok2 && r2 == c.r, "reference table sanity")
	// aliases resolve to the same table
	for _, al := range [][2]string{{"8859-9", "ISO8859-9"}, {"ISO-8859-9", "ISO8859-9"}, {"ISO-8859-15", "ISO8859-15"}, {"EUCJP", "EUC-JP"}, {"SJIS", "SHIFT_JIS"}, {"EUCKR", "EUC-KR"}} {
		a, b := tcell.GetEncoding(al[0]), tcell.GetEncoding(al[1])
		if a == nil {
			continue // not every alias spelling is promised
		}
		ra, oka := h17eDecode(a, []byte{0xd0})
		rb, okb := h17eDecode(b, []byte{0xd0})
		vsymAssert(oka == okb && ra == rb, "an alias resolves to the table of its canonical name: "+al[0])
	}
}
