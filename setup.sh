#!/bin/sh
# Offline build of the verification engine.
cd "$(dirname "$0")"
. ./env.sh
mkdir -p bin evidence replays
cd gosym && go build -o ../bin/gosym . && echo "gosym built"
