#!/usr/bin/env python3
"""Regenerates MANIFEST.json from manifest_src.json (claims) + properties.jsonl (ids)."""
import json,sys
src=json.load(open('/verif/manifest_src.json'))
ids=[json.loads(l)['id'] for l in open('/verif/properties.jsonl')]
checks=[]
for pid in ids:
    c=src['claims'].get(pid)
    if not c: continue
    checks.append({
      "property_id":pid,
      "quick_cmd":f"./check {pid} quick",
      "thorough_cmd":f"./check {pid} thorough",
      "evidence_file":f"/verif/evidence/{pid}.json",
      "replay_cmd_template":f"./check {pid} --replay {{path}}",
      "engine":"gosym",
      "level_claimed":{"category":"model_checking","text":c['text'],"design_ref":c.get('design_ref','DESIGN.md section 4 '+pid)},
      "level_note":c['note'],
      "technique":c.get('technique',"bounded symbolic execution of the real code: Go SSA -> SMT (bit-vectors), z3 verdict per assertion; counterexamples replayed natively")
    })
na=[{"property_id":p,"reason":src['not_applicable'].get(p,"check not built yet in this session (engine exists; harness pending)")} for p in ids if p not in src['claims']]
m={
 "version":1,
 "setup_cmd":"sh ./setup.sh",
 "hooks":{"guard":"verif","enable":"no source hooks: harness files are injected with go/packages Overlay and `go test -overlay` under build tag verif",
          "baseline_off_cmd":"cd /repo && go test -vet=off -count=1 ./...","source_commits":[],"add_only":True},
 "engines":[{"name":"gosym","path":"/verif/gosym","serves_properties":[c['property_id'] for c in checks],
             "kind_free_text":"Go SSA symbolic executor (path forking, SMT-LIB2 over z3/cvc5 pipes), harnesses in /verif/harness overlaid into /repo packages"}],
 "checks":checks,
 "notes":src.get('notes',''),
 "not_applicable":na}
json.dump(m,open('/verif/MANIFEST.json','w'),indent=1)
print("claims:",[c['property_id'] for c in checks]," not_applicable:",len(na))
