# sourced by every /verif script: offline Go settings
export GOFLAGS=-mod=mod GOPROXY=off GOSUMDB=off GOTOOLCHAIN=local
export CARGO_NET_OFFLINE=true PIP_NO_INDEX=1
