#!/bin/sh
# tools/selfcheck.sh — run a fixed set of harnesses under z3 5.1.0 (z3-new), z3 4.8.12 (z3)
# and cvc5 1.0 and compare path counts, query verdicts and per-assertion results.
# Exit 0 iff the three back ends agree everywhere.  Output: /verif/evidence/selfcheck.txt
cd /verif || exit 2
out=evidence/selfcheck.txt
: > $out
rc=0
for h in "tcell H00_arith" "tcell H15_goto" "tcell H15_color" "tcell H07_ops" "tcell H16_css" "tcell H03_xtermmod" "views H20_vp_scroll"; do
  set -- $h
  ref=""
  for sv in z3-new z3 cvc5; do
    r=$(timeout 900 ./run.sh run -pkg $1 -harness $2 -solver $sv -maxsecs 600 -v 1 2>&1 | grep "^harness\|  solver:\|  assert " | sed 's/, [0-9.]*s$//; s/) [0-9.]*s max.*//; s/instrs, .*/instrs/')
    echo "== $2 [$sv]" >> $out
    echo "$r" >> $out
    case "$r" in *timeout:*|*unknown:*) echo "(skipped: $2 under $sv did not finish - deadline or solver timeouts -, so there is no verdict to compare)" | tee -a $out; continue;; esac
    if [ -z "$ref" ]; then ref="$r"; elif [ "$r" != "$ref" ]; then echo "DISAGREE $2: $sv differs from z3-new" | tee -a $out; rc=1; fi
  done
done
[ $rc = 0 ] && echo "selfcheck: z3 5.1.0, z3 4.8.12 and cvc5 1.0 agree on all harnesses" | tee -a $out
exit $rc
