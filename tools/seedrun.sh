#!/bin/sh
# usage: tools/seedrun.sh <seed-dir-name> <PROP> [tier] [extra check args]
# Applies /verif/seeded/<seed>/patch.diff to /repo, runs ./check PROP tier, restores /repo.
seed=$1; prop=$2; tier=${3:-quick}; shift; shift; [ $# -gt 0 ] && shift
cd /verif || exit 2
if [ -n "$(git -C /repo status --porcelain)" ]; then echo "/repo not clean"; exit 2; fi
git -C /repo apply /verif/seeded/$seed/patch.diff || { echo "patch does not apply"; exit 2; }
out=/tmp/seedrun_${seed}_${prop}.out
timeout 3000 ./check $prop $tier "$@" > $out 2>&1
rc=$?
git -C /repo checkout -- .
nv=$(grep -c "^VIOLATION" $out)
echo "seed=$seed prop=$prop tier=$tier exit=$rc violations=$nv $(grep "$prop $tier:" $out | cut -c1-120)"
grep -A1 "^VIOLATION" $out | grep "harness" | cut -c1-200 | sort | uniq -c | head -5
