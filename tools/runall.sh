#!/bin/sh
# usage: tools/runall.sh [tier] [ids...]   — runs the checks one after the other, prints one line each
cd /verif || exit 2
tier=${1:-quick}; [ $# -gt 0 ] && shift
ids="$@"
[ -z "$ids" ] && ids="C01 C02 C03 C04 C05 C06 C07 C08 C09 C10 C11 C12 C13 C14 C15 C16 C17 C18 C19 C20"
for p in $ids; do
  s=$(date +%s)
  timeout 7200 ./check $p $tier > /tmp/all_$p.out 2>&1
  rc=$?
  e=$(( $(date +%s) - s ))
  echo "$p exit=$rc ${e}s viol=$(grep -c '^VIOLATION' /tmp/all_$p.out) known=$(grep -c '^KNOWN-FINDING' /tmp/all_$p.out) incon=$(grep -c '^INCONCLUSIVE' /tmp/all_$p.out) | $(grep "$p $tier:" /tmp/all_$p.out | cut -c1-150)"
done
