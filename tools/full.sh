#!/bin/sh
# usage: tools/full.sh [tier] — unchanged-tree regression of every check, then every seed against its property's check
tier=${1:-quick}
cd /verif || exit 2
: > /tmp/full.out
for p in C01 C02 C03 C04 C05 C06 C07 C08 C09 C10 C11 C12 C13 C14 C15 C16 C17 C18 C19 C20; do
  s=$(date +%s)
  timeout 7200 ./check $p $tier > /tmp/all_$p.out 2>&1
  rc=$?
  e=$(( $(date +%s) - s ))
  echo "BASE $p exit=$rc ${e}s viol=$(grep -c '^VIOLATION' /tmp/all_$p.out) known=$(grep -c '^KNOWN-FINDING' /tmp/all_$p.out) incon=$(grep -c '^INCONCLUSIVE' /tmp/all_$p.out) | $(grep "$p $tier:" /tmp/all_$p.out | cut -c1-150)" >> /tmp/full.out
  cp evidence/$p.json /tmp/evidence_base_$p.json
done
for d in seeded/*; do
  s=$(basename $d); id=${s%%-*}
  tools/seedrun.sh $s $id $tier >> /tmp/full.out 2>&1
done
# evidence files must describe the unchanged tree
for p in C01 C02 C03 C04 C05 C06 C07 C08 C09 C10 C11 C12 C13 C14 C15 C16 C17 C18 C19 C20; do cp /tmp/evidence_base_$p.json evidence/$p.json; done
echo finished >> /tmp/full.out
