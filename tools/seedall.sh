#!/bin/sh
# usage: tools/seedall.sh [tier] [ids...] : runs every seed against the check of its own property
tier=${1:-quick}; shift
ids=${*:-"C01 C02 C03 C04 C05 C06 C07 C08 C09 C10 C11 C12 C13 C14 C15 C16 C17 C18 C19 C20"}
: > /tmp/seedall.out
for id in $ids; do
  for d in /verif/seeded/$id-${SEEDSUFFIX:-*}; do
    [ -d "$d" ] || continue
    s=$(basename $d)
    /verif/tools/seedrun.sh $s $id $tier >> /tmp/seedall.out 2>&1
  done
done
echo finished >> /tmp/seedall.out
