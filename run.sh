#!/bin/sh
# developer convenience: ./run.sh <gosym args>   (rebuilds when sources changed)
cd /verif && . ./env.sh
if [ ! -x bin/gosym ] || [ -n "$(find gosym -newer bin/gosym -name '*.go' | head -1)" ]; then
  (cd gosym && go build -o ../bin/gosym .) || exit 2
fi
exec /verif/bin/gosym "$@"
