#!/bin/sh
# developer convenience: ./run.sh <gosym args>
. /verif/env.sh
exec /verif/bin/gosym "$@"
