package main

import (
	"fmt"
	"os"
	"strings"

	"golang.org/x/tools/go/ssa"
)

// Happens-before race detection over the explored paths (job parameter hbrace=1).
//
// Every goroutine carries a vector clock; the synchronisation operations the
// engine models transfer clocks exactly as the Go memory model orders them:
//   go statement            parent -> child
//   channel send -> receive (the clock travels with the buffered element);
//   close -> receive-of-closed
//   Mutex/RWMutex Unlock -> next Lock;  WaitGroup Done -> Wait;  Once.Do -> later Do
// Every load and store through a pointer is checked against the last write
// (and, for stores, the reads since) of the same location - heap object plus
// top-level field (arrays and slices' backing stores count as one location).
// Two accesses, at least one a write, by different goroutines and not ordered
// by happens-before are a race *whatever the schedule* - the engine's single
// run-until-blocked schedule suffices to see them, as with a dynamic race
// detector, but on every explored path.  A report is a candidate: the check
// replays the same harness inputs natively under `go test -race` and reports
// only what the Go race detector confirms.

type VC []int32

func (a VC) leq(b VC) bool {
	for i, v := range a {
		if v == 0 {
			continue
		}
		if i >= len(b) || v > b[i] {
			return false
		}
	}
	return true
}

func vcJoin(a, b VC) VC {
	n := len(a)
	if len(b) > n {
		n = len(b)
	}
	out := make(VC, n)
	copy(out, a)
	for i, v := range b {
		if v > out[i] {
			out[i] = v
		}
	}
	return out
}

func vcTick(a VC, i int) VC {
	n := len(a)
	if i >= n {
		n = i + 1
	}
	out := make(VC, n)
	copy(out, a)
	out[i]++
	return out
}

type hbLoc struct {
	obj   int
	field int32
}

type hbAcc struct {
	th    int32
	clock int32
	fn    *ssa.Function
	in    ssa.Instruction
}

// hbCell is immutable once stored (states share cells after a fork)
type hbCell struct {
	w     hbAcc
	hasW  bool
	reads []hbAcc // at most one per thread since the last write
}

type hbRace struct {
	Loc              string
	SiteA, SiteB     string
	ThreadA, ThreadB string
	WriteA, WriteB   bool
}

func (s *State) hbOwn() {
	if s.hbOwned {
		return
	}
	n := make(map[hbLoc]*hbCell, len(s.hbShadow)+16)
	for k, v := range s.hbShadow {
		n[k] = v
	}
	s.hbShadow = n
	ns := make(map[string]VC, len(s.hbSync)+8)
	for k, v := range s.hbSync {
		ns[k] = v
	}
	s.hbSync = ns
	s.hbOwned = true
}

func (s *State) hbVC(i int) VC {
	th := s.threads[i]
	if th.vc == nil {
		th.vc = vcTick(nil, i)
	}
	return th.vc
}

// release: the current thread publishes its clock under key k, then ticks
func (ex *Exec) hbRelease(st *State, k string, join bool) {
	if !ex.hbOn {
		return
	}
	cur := st.hbVC(st.cur)
	st.hbOwn()
	if join {
		st.hbSync[k] = vcJoin(st.hbSync[k], cur)
	} else {
		st.hbSync[k] = cur
	}
	st.threads[st.cur].vc = vcTick(cur, st.cur)
}

func (ex *Exec) hbAcquire(st *State, k string) {
	if !ex.hbOn {
		return
	}
	if v, ok := st.hbSync[k]; ok {
		st.threads[st.cur].vc = vcJoin(st.hbVC(st.cur), v)
	}
}

// hbSendVC: the clock that travels with a sent element
func (ex *Exec) hbSendVC(st *State) VC {
	if !ex.hbOn {
		return nil
	}
	cur := st.hbVC(st.cur)
	st.threads[st.cur].vc = vcTick(cur, st.cur)
	return cur
}

func (ex *Exec) hbRecvVC(st *State, v VC) {
	if !ex.hbOn || v == nil {
		return
	}
	st.threads[st.cur].vc = vcJoin(st.hbVC(st.cur), v)
}

func (ex *Exec) hbAccess(st *State, fr *Frame, p Ptr, write bool) {
	if p.obj == 0 || len(st.threads) < 2 {
		return
	}
	field := int32(-1)
	if es := pathElems(p.path); len(es) > 0 {
		if _, isArr := st.heap.get(p.obj).v.(*ArrayV); !isArr {
			field = int32(es[0])
		}
	}
	loc := hbLoc{p.obj, field}
	cur := st.hbVC(st.cur)
	me := hbAcc{th: int32(st.cur), clock: cur[st.cur], fn: fr.fn}
	if fr.ip < len(fr.block.Instrs) {
		me.in = fr.block.Instrs[fr.ip]
	}
	if ex.hbHarnessFn(fr.fn) {
		// harness code (the fake tty) running on behalf of a library goroutine: the access
		// belongs to the nearest library frame (e.g. inputLoop's tty.Read call)
		frames := st.thread().frames
		for i := len(frames) - 2; i >= 0; i-- {
			if f := frames[i]; !ex.hbHarnessFn(f.fn) {
				me.fn = f.fn
				if f.ip < len(f.block.Instrs) {
					me.in = f.block.Instrs[f.ip]
				}
				break
			}
		}
	}
	c := st.hbShadow[loc]
	ordered := func(a hbAcc) bool {
		return int(a.th) == st.cur || (int(a.th) < len(cur) && a.clock <= cur[a.th])
	}
	if c != nil {
		if c.hasW && !ordered(c.w) {
			ex.hbReport(st, p, c.w, true, me, write)
		}
		if write {
			for _, r := range c.reads {
				if !ordered(r) {
					ex.hbReport(st, p, r, false, me, true)
				}
			}
		}
	}
	// update
	var n hbCell
	if write {
		n = hbCell{w: me, hasW: true}
	} else {
		if c != nil {
			n.w, n.hasW = c.w, c.hasW
			for _, r := range c.reads {
				if int(r.th) != st.cur {
					n.reads = append(n.reads, r)
				}
			}
		}
		n.reads = append(n.reads, me)
	}
	st.hbOwn()
	st.hbShadow[loc] = &n
}

func (ex *Exec) hbAccessTop(st *State, p Ptr, write bool) {
	if fr := st.top(); fr != nil {
		ex.hbAccess(st, fr, p, write)
	}
}

func hbSite(ex *Exec, a hbAcc) string {
	if a.fn == nil {
		return "?"
	}
	pos := ""
	if a.in != nil && a.in.Pos().IsValid() {
		pp := ex.P.prog.Fset.Position(a.in.Pos())
		pos = fmt.Sprintf("%s:%d", shortFile(pp.Filename), pp.Line)
	} else if a.fn.Pos().IsValid() {
		pp := ex.P.prog.Fset.Position(a.fn.Pos())
		pos = shortFile(pp.Filename)
	}
	return a.fn.Name() + "(" + pos + ")"
}

func (ex *Exec) hbHarnessFn(fn *ssa.Function) bool {
	if fn == nil {
		return false
	}
	if v, ok := ex.hbFnCache[fn]; ok {
		return v
	}
	f := fn
	for f.Parent() != nil {
		f = f.Parent() // closures: judged by the enclosing function
	}
	v := false
	if f.Pos().IsValid() {
		v = strings.Contains(ex.P.prog.Fset.Position(f.Pos()).Filename, "zz_verif")
	}
	if ex.hbFnCache == nil {
		ex.hbFnCache = map[*ssa.Function]bool{}
	}
	ex.hbFnCache[fn] = v
	return v
}

func hbInHarness(ex *Exec, a hbAcc) bool { return ex.hbHarnessFn(a.fn) }

func (ex *Exec) hbReport(st *State, p Ptr, a hbAcc, aWrite bool, b hbAcc, bWrite bool) {
	// accesses made by harness code itself (fake tty, shadow bookkeeping) are not the library's
	if hbInHarness(ex, a) || hbInHarness(ex, b) {
		return
	}
	name := func(i int32) string {
		if int(i) < len(st.threads) {
			return st.threads[i].name
		}
		return "?"
	}
	sa, sb := hbSite(ex, a), hbSite(ex, b)
	key := sa + "|" + sb
	if ex.hbRaces == nil {
		ex.hbRaces = map[string]*hbRace{}
	}
	if _, dup := ex.hbRaces[key]; dup {
		return
	}
	loc := fmt.Sprintf("object #%d", p.obj)
	if o := st.heap.get(p.obj); o != nil {
		loc = fmt.Sprintf("%T #%d", o.v, p.obj)
	}
	ex.hbRaces[key] = &hbRace{Loc: loc, SiteA: sa, SiteB: sb, ThreadA: name(a.th), ThreadB: name(b.th), WriteA: aWrite, WriteB: bWrite}
	rw := func(w bool) string {
		if w {
			return "write"
		}
		return "read"
	}
	vals, kinds := inputsOf(st, st.model)
	ex.violations = append(ex.violations, &Violation{Harness: ex.curHarness, Kind: "race",
		Msg:    fmt.Sprintf("unordered accesses to the same memory: %s by %s at %s and %s by %s at %s", rw(aWrite), name(a.th), sa, rw(bWrite), name(b.th), sb) + hbDebug(st, p, a, b),
		Inputs: vals, Kinds: kinds, Notes: st.notes, Choices: st.choices})
}

func hbDebug(st *State, p Ptr, a, b hbAcc) string {
	if os.Getenv("GOSYM_HBDEBUG") == "" {
		return ""
	}
	return fmt.Sprintf(" [obj %d path %v; first access clock %d@%d; current thread %d vc %v]", p.obj, pathElems(p.path), a.clock, a.th, st.cur, st.threads[st.cur].vc)
}
