package main

import (
	"fmt"
	"go/types"
	"sync/atomic"

	"golang.org/x/tools/go/ssa"
)

// ------------------------------------------------------------------ heap

type Obj struct {
	owner uint64
	v     Value // Value | *MapObj | *ChanObj | *IterObj
}

const chunkSize = 256

type chunk struct {
	owner uint64
	o     [chunkSize]*Obj
}

type Heap struct {
	chunks []*chunk
	n      int // next free id (ids start at 1; 0 is nil)
}

func (h *Heap) fork() Heap {
	return Heap{chunks: append([]*chunk(nil), h.chunks...), n: h.n}
}

func (h *Heap) get(id int) *Obj {
	if id <= 0 || id >= h.n {
		panic(fmt.Sprintf("heap.get: bad object id %d (n=%d)", id, h.n))
	}
	return h.chunks[id/chunkSize].o[id%chunkSize]
}

func (h *Heap) ownChunk(ci int, sid uint64) *chunk {
	c := h.chunks[ci]
	if c.owner != sid {
		nc := &chunk{owner: sid, o: c.o}
		h.chunks[ci] = nc
		c = nc
	}
	return c
}

func (h *Heap) alloc(v Value, sid uint64) int {
	if h.n == 0 {
		h.n = 1
	}
	id := h.n
	h.n++
	ci := id / chunkSize
	for ci >= len(h.chunks) {
		h.chunks = append(h.chunks, &chunk{owner: sid})
	}
	c := h.ownChunk(ci, sid)
	c.o[id%chunkSize] = &Obj{owner: sid, v: v}
	return id
}

// own returns the object for mutation by state sid, cloning as necessary.
func (h *Heap) own(id int, sid uint64) *Obj {
	if id <= 0 || id >= h.n {
		panic(fmt.Sprintf("heap.own: bad object id %d", id))
	}
	ci := id / chunkSize
	c := h.chunks[ci]
	o := c.o[id%chunkSize]
	if o.owner == sid {
		return o
	}
	c = h.ownChunk(ci, sid)
	no := &Obj{owner: sid, v: cloneObjVal(o.v)}
	c.o[id%chunkSize] = no
	return no
}

func cloneObjVal(v Value) Value {
	switch x := v.(type) {
	case *StructV:
		n := &StructV{f: make([]Value, len(x.f))}
		for i, f := range x.f {
			n.f[i] = cloneObjVal(f)
		}
		return n
	case *ArrayV:
		n := &ArrayV{e: make([]Value, len(x.e))}
		leaf := true
		if len(x.e) > 0 {
			switch x.e[0].(type) {
			case *StructV, *ArrayV:
				leaf = false
			}
		}
		if leaf {
			copy(n.e, x.e)
		} else {
			for i, f := range x.e {
				n.e[i] = cloneObjVal(f)
			}
		}
		return n
	case *MapObj:
		return x.clone()
	case *ChanObj:
		return x.clone()
	case *IterObj:
		c := *x
		return &c
	}
	return v
}

type IterObj struct {
	isStr bool
	str   *StrV
	pos   int
	keys  []Value // snapshot of map keys
	mobj  int
}

// ------------------------------------------------------------------ frames / threads / state

type deferRec struct {
	fn   *FuncV
	args []Value
	// for invoke-mode defers
	recv   Value
	method *types.Func
}

type Frame struct {
	fn      *ssa.Function
	info    *FnInfo
	regs    []Value
	block   *ssa.BasicBlock
	prev    int // index of predecessor block
	ip      int
	defers  []deferRec
	symBr   map[ssa.Instruction]int
	onRet   func(ex *Exec, st *State, res Value) // nil: store into caller's call register and advance
	unwound bool                                 // frame is executing its defers because of a panic
	named   []Value
}

func (f *Frame) clone() *Frame {
	n := *f
	n.regs = append([]Value(nil), f.regs...)
	n.defers = append([]deferRec(nil), f.defers...)
	if f.symBr != nil {
		n.symBr = make(map[ssa.Instruction]int, len(f.symBr))
		for k, v := range f.symBr {
			n.symBr[k] = v
		}
	}
	return &n
}

type Thread struct {
	frames  []*Frame
	blocked string // non-empty: site description of the blocking op
	done    bool
	name    string
	panicV  *PanicInfo
	vc      VC              // happens-before clock (hbrace mode)
	noPre   ssa.Instruction // the sync operation this thread resumes with (no second preemption there)
}

type PanicInfo struct {
	val   Value
	msg   string
	site  string
	rtErr bool
}

type InputRec struct {
	Name string
	T    *Term
	Kind string
}

type Note struct {
	Key string
	Val string
}

type AccessRec struct {
	Loc    string
	Write  bool
	Locked bool
	Thread string
	Site   string
}

type State struct {
	id        uint64
	threads   []*Thread
	cur       int
	heap      Heap
	pc        []*Term
	model     Model // witness: satisfies every conjunct of pc (when evaluable)
	modelOK   bool
	inputs    []InputRec
	symCount  map[string]int
	notes     []Note
	choices   []string
	depth     int
	status    string // "", "done", "panic", "blocked", "unsupported", "assume-false", "unwind"
	detail    string
	timers    []int   // heap ids of timer objects
	sleeps    []*Term // recorded time.Sleep durations
	clock     int     // number of time.Now calls
	env       map[string]*StrV
	sideVals  map[string]int // sync objects (mutex held, waitgroup count, once done, timer active)
	sideOwned bool
	sideStr   map[string]string  // mutex holder names (diagnostics)
	held      []string           // mutex keys currently held (all threads)
	dom       map[int32]*byteDom // allowed values of 8-bit inputs (from single-variable conjuncts)
	linked    map[int32]bool     // variables occurring in multi-variable conjuncts
	wide      map[int32]*wideDom // explicit small domains of wider variables
	domOwned  bool
	lastSec   *Term
	lastNsec  *Term
	fresh     int
	access    []AccessRec
	track     int // heap object id whose reachable accesses are recorded (C10); 0 = off
	trackInfo *trackInfo
	jsGlobals map[string]Value
	steps     int64
	selForks  int
	hbShadow  map[hbLoc]*hbCell // happens-before shadow memory (hbrace mode), copy-on-write
	hbSync    map[string]VC
	hbOwned   bool
	preemptOn bool // inside a vsymPreemptWindow
	preempts  int // context switches forced at synchronisation points (bounded by param preempt)
	writes    []*StrV
}

var stateSeq uint64

func newStateID() uint64 { return atomic.AddUint64(&stateSeq, 1) }

func (s *State) fork() *State {
	n := &State{
		id:        newStateID(),
		cur:       s.cur,
		heap:      s.heap.fork(),
		pc:        append([]*Term(nil), s.pc...),
		model:     s.model,
		modelOK:   s.modelOK,
		inputs:    append([]InputRec(nil), s.inputs...),
		notes:     append([]Note(nil), s.notes...),
		choices:   append([]string(nil), s.choices...),
		depth:     s.depth,
		timers:    append([]int(nil), s.timers...),
		sleeps:    append([]*Term(nil), s.sleeps...),
		clock:     s.clock,
		env:       s.env,
		track:     s.track,
		trackInfo: s.trackInfo,
		jsGlobals: s.jsGlobals,
		steps:     s.steps,
		selForks:  s.selForks,
		preempts:  s.preempts,
		preemptOn: s.preemptOn,
		hbShadow:  s.hbShadow,
		hbSync:    s.hbSync,
		access:    append([]AccessRec(nil), s.access...),
		writes:    append([]*StrV(nil), s.writes...),
	}
	n.symCount = make(map[string]int, len(s.symCount))
	for k, v := range s.symCount {
		n.symCount[k] = v
	}
	n.sideVals, n.sideOwned = s.sideVals, false
	s.sideOwned = false
	n.sideStr = s.sideStr
	n.held = s.held
	n.lastSec, n.lastNsec, n.fresh = s.lastSec, s.lastNsec, s.fresh
	n.dom, n.linked, n.wide, n.domOwned = s.dom, s.linked, s.wide, false
	s.domOwned = false
	s.hbOwned = false
	n.threads = make([]*Thread, len(s.threads))
	for i, t := range s.threads {
		nt := &Thread{blocked: t.blocked, done: t.done, name: t.name, panicV: t.panicV, noPre: t.noPre, vc: t.vc}
		nt.frames = make([]*Frame, len(t.frames))
		for j, f := range t.frames {
			nt.frames[j] = f.clone()
		}
		n.threads[i] = nt
	}
	// the parent keeps running under a fresh id too, so that neither side
	// mutates objects the other can still see
	s.id = newStateID()
	return n
}

func (s *State) thread() *Thread { return s.threads[s.cur] }
func (s *State) top() *Frame {
	t := s.threads[s.cur]
	if len(t.frames) == 0 {
		return nil
	}
	return t.frames[len(t.frames)-1]
}

func (s *State) alloc(v Value) int { return s.heap.alloc(v, s.id) }

// ---- memory access through pointers

func navigate(root Value, path string) Value {
	v := root
	for i := 0; i+4 <= len(path); i += 4 {
		idx := int(path[i])<<24 | int(path[i+1])<<16 | int(path[i+2])<<8 | int(path[i+3])
		switch x := v.(type) {
		case *StructV:
			v = x.f[idx]
		case *ArrayV:
			if idx < 0 || idx >= len(x.e) {
				panic(fmt.Sprintf("navigate: index %d out of range %d", idx, len(x.e)))
			}
			v = x.e[idx]
		default:
			panic(fmt.Sprintf("navigate: cannot step into %T", v))
		}
	}
	return v
}

func (s *State) load(p Ptr) Value {
	if p.obj == 0 {
		panic("load through nil pointer (unchecked)")
	}
	o := s.heap.get(p.obj)
	v := navigate(o.v, p.path)
	return copyVal(v)
}

// loadRef returns the value without copying; callers must not mutate it.
func (s *State) loadRef(p Ptr) Value {
	o := s.heap.get(p.obj)
	return navigate(o.v, p.path)
}

func (s *State) store(p Ptr, v Value) {
	if p.obj == 0 {
		panic("store through nil pointer (unchecked)")
	}
	v = copyVal(v)
	o := s.heap.own(p.obj, s.id)
	if len(p.path) == 0 {
		o.v = v
		return
	}
	parent := navigate(o.v, p.path[:len(p.path)-4])
	i := len(p.path) - 4
	idx := int(p.path[i])<<24 | int(p.path[i+1])<<16 | int(p.path[i+2])<<8 | int(p.path[i+3])
	switch x := parent.(type) {
	case *StructV:
		x.f[idx] = v
	case *ArrayV:
		x.e[idx] = v
	default:
		panic(fmt.Sprintf("store: cannot step into %T", parent))
	}
}

func (s *State) mapObj(m MapV) *MapObj     { return s.heap.get(m.obj).v.(*MapObj) }
func (s *State) mapObjW(m MapV) *MapObj    { return s.heap.own(m.obj, s.id).v.(*MapObj) }
func (s *State) chanObj(c ChanV) *ChanObj  { return s.heap.get(c.obj).v.(*ChanObj) }
func (s *State) chanObjW(c ChanV) *ChanObj { return s.heap.own(c.obj, s.id).v.(*ChanObj) }

// slice element pointer
func (s *State) sliceElem(sl SliceV, i int) Ptr { return sl.arr.Elem(sl.off + i) }

func (s *State) sliceVals(sl SliceV) []Value {
	if sl.len == 0 {
		return nil
	}
	arr := s.loadRef(sl.arr).(*ArrayV)
	return arr.e[sl.off : sl.off+sl.len]
}

func (s *State) newArray(elems []Value) Ptr {
	id := s.alloc(&ArrayV{e: elems})
	return Ptr{obj: id}
}

func (s *State) newSlice(elems []Value) SliceV {
	p := s.newArray(elems)
	return SliceV{arr: p, off: 0, len: len(elems), cap: len(elems)}
}

func (s *State) bytesToSlice(b []*Term) SliceV {
	e := make([]Value, len(b))
	for i, x := range b {
		e[i] = x
	}
	return s.newSlice(e)
}

func (s *State) sliceToStr(sl SliceV) *StrV {
	vals := s.sliceVals(sl)
	b := make([]*Term, len(vals))
	for i, v := range vals {
		b[i] = v.(*Term)
	}
	return mkStrBytes(b)
}

func (s *State) addPC(c *Term) {
	if isTrue(c) {
		return
	}
	if c.op == OpAnd {
		for _, a := range c.args {
			s.addPC(a)
		}
		return
	}
	for _, p := range s.pc {
		if p == c {
			return
		}
	}
	s.pc = append(s.pc, c)
	s.noteConstraint(c)
}

func (s *State) setSideStr(k, v string) {
	n := make(map[string]string, len(s.sideStr)+1)
	for a, b := range s.sideStr {
		n[a] = b
	}
	n[k] = v
	s.sideStr = n
}

func (s *State) note(k, v string) { s.notes = append(s.notes, Note{k, v}) }

// ------------------------------------------------------------------ function info

type FnInfo struct {
	fn    *ssa.Function
	index map[ssa.Value]int
	nregs int
	ninst int
}

func buildFnInfo(fn *ssa.Function) *FnInfo {
	fi := &FnInfo{fn: fn, index: make(map[ssa.Value]int)}
	n := 0
	for _, p := range fn.Params {
		fi.index[p] = n
		n++
	}
	for _, fv := range fn.FreeVars {
		fi.index[fv] = n
		n++
	}
	for _, b := range fn.Blocks {
		for _, in := range b.Instrs {
			fi.ninst++
			if v, ok := in.(ssa.Value); ok {
				fi.index[v] = n
				n++
			}
		}
	}
	fi.nregs = n
	return fi
}
