package main

import (
	"fmt"
	"go/types"
	"math"
	"strconv"
	"strings"

	"golang.org/x/tools/go/ssa"
)

type Intrinsic func(ex *Exec, st *State, fr *Frame, dst ssa.Value, args []Value)

var intrinsics map[string]Intrinsic

func init() {
	intrinsics = map[string]Intrinsic{
		// ---- sync
		"(*sync.Mutex).Lock":      iMutexLock,
		"(*sync.Mutex).Unlock":    iMutexUnlock,
		"(*sync.Mutex).TryLock":   iMutexTryLock,
		"(*sync.RWMutex).Lock":    iMutexLock,
		"(*sync.RWMutex).Unlock":  iMutexUnlock,
		"(*sync.RWMutex).RLock":   iMutexLock,
		"(*sync.RWMutex).RUnlock": iMutexUnlock,
		"(*sync.WaitGroup).Add":   iWGAdd,
		"(*sync.WaitGroup).Done":  iWGDone,
		"(*sync.WaitGroup).Wait":  iWGWait,
		"(*sync.Once).Do":         iOnceDo,
		"(*sync.Pool).Get":        iPoolGet,
		"(*sync.Pool).Put":        iNop,
		// ---- time
		"time.Now":            iTimeNow,
		"time.Sleep":          iTimeSleep,
		"time.NewTimer":       iNewTimer,
		"(*time.Timer).Stop":  iTimerStop,
		"(*time.Timer).Reset": iTimerReset,
		"time.Since":          nil,
		// ---- os
		"os.Getenv":    iGetenv,
		"os.LookupEnv": iLookupEnv,
		// ---- strings / bytes kernels
		"strings.Index":                    iStringsIndex,
		"internal/stringslite.Index":       iStringsIndex,
		"strings.IndexByte":                iIndexByteString,
		"internal/stringslite.IndexByte":   iIndexByteString,
		"internal/bytealg.IndexByteString": iIndexByteString,
		"internal/bytealg.IndexByte":       iIndexByteSlice,
		"bytes.IndexByte":                  iIndexByteSlice,
		"internal/bytealg.MakeNoZero":      iMakeNoZero,
		"internal/bytealg.CountString":     iCountString,
		"internal/bytealg.Count":           iCountSlice,
		"internal/bytealg.Equal":           iBytesEqual,
		"bytes.Equal":                      iBytesEqual,
		"internal/abi.NoEscape":            iIdentity,
		"internal/stringslite.Clone":       iIdentity,
		"strings.Clone":                    iIdentity,
		"internal/abi.Escape":              iIdentity,
		"(*strings.Builder).WriteString":   iBuilderWriteString,
		"(*strings.Builder).WriteByte":     iBuilderWriteByte,
		"(*strings.Builder).Write":         iBuilderWrite,
		"(*strings.Builder).String":        iBuilderString,
		"(*strings.Builder).Len":           iBuilderLen,
		"(*strings.Builder).Grow":          iNop,
		"(*strings.Builder).Reset":         iBuilderReset,
		"strconv.Itoa":                     iItoa,
		"fmt.Sprintf":                      iSprintf,
		"fmt.Errorf":                       iErrorf,
		"fmt.Sprint":                       nil,
		"reflect.DeepEqual":                iDeepEqual,
		"math.IsNaN":                       iIsNaN,
		"math.IsInf":                       iIsInf,
		"math.Inf":                         iInf,
		"math.Float64bits":                 nil,
		"runtime.Gosched":                  iNop,
		"runtime.KeepAlive":                iNop,
		"(*sync/atomic.Uint32).Load":       nil,
		"sync/atomic.LoadUint32":           iAtomicLoad,
		"sync/atomic.LoadInt32":            iAtomicLoad,
		"sync/atomic.StoreUint32":          iAtomicStore,
		"sync/atomic.StoreInt32":           iAtomicStore,
		"sync/atomic.AddInt32":             iAtomicAdd,
		"sync/atomic.AddUint32":            iAtomicAdd,
		"sync/atomic.AddInt64":             iAtomicAdd,
		"sync/atomic.CompareAndSwapInt32":  iAtomicCAS,
		"sync/atomic.CompareAndSwapUint32": iAtomicCAS,
		"(github.com/lucasb-eyer/go-colorful.Color).DistanceCIE76": iDistanceCIE76,
	}
	for k, v := range intrinsics {
		if v == nil {
			delete(intrinsics, k)
		}
	}
	for name, f := range nativeMath {
		f := f
		intrinsics[name] = func(ex *Exec, st *State, fr *Frame, dst ssa.Value, args []Value) {
			fs := make([]float64, len(args))
			for i, a := range args {
				t := a.(*Term)
				if !t.IsConst() {
					unsup("%s on symbolic float", name)
				}
				fs[i] = t.Float()
			}
			ex.ret(fr, dst, mkFP(f(fs)))
		}
	}
}

var nativeMath = map[string]func([]float64) float64{
	"math.Cbrt":  func(a []float64) float64 { return math.Cbrt(a[0]) },
	"math.Pow":   func(a []float64) float64 { return math.Pow(a[0], a[1]) },
	"math.Sqrt":  func(a []float64) float64 { return math.Sqrt(a[0]) },
	"math.Floor": func(a []float64) float64 { return math.Floor(a[0]) },
	"math.Ceil":  func(a []float64) float64 { return math.Ceil(a[0]) },
	"math.Abs":   func(a []float64) float64 { return math.Abs(a[0]) },
	"math.Exp":   func(a []float64) float64 { return math.Exp(a[0]) },
	"math.Log":   func(a []float64) float64 { return math.Log(a[0]) },
	"math.Atan2": func(a []float64) float64 { return math.Atan2(a[0], a[1]) },
	"math.Sin":   func(a []float64) float64 { return math.Sin(a[0]) },
	"math.Cos":   func(a []float64) float64 { return math.Cos(a[0]) },
	"math.Mod":   func(a []float64) float64 { return math.Mod(a[0], a[1]) },
	"math.Max":   func(a []float64) float64 { return math.Max(a[0], a[1]) },
	"math.Min":   func(a []float64) float64 { return math.Min(a[0], a[1]) },
	"math.Round": func(a []float64) float64 { return math.Round(a[0]) },
	"math.Trunc": func(a []float64) float64 { return math.Trunc(a[0]) },
	"math.Hypot": func(a []float64) float64 { return math.Hypot(a[0], a[1]) },
}

func iNop(ex *Exec, st *State, fr *Frame, dst ssa.Value, args []Value)      { ex.ret(fr, dst, nil) }
func iIdentity(ex *Exec, st *State, fr *Frame, dst ssa.Value, args []Value) { ex.ret(fr, dst, args[0]) }

// ------------------------------------------------------------------ side table (sync objects)

func sideKey(v Value) string {
	switch p := v.(type) {
	case Ptr:
		return p.String()
	}
	unsup("sync object behind %T", v)
	return ""
}

func (st *State) sget(k string) int { return st.sideVals[k] }
func (st *State) sset(k string, v int) {
	if !st.sideOwned {
		n := make(map[string]int, len(st.sideVals)+1)
		for a, b := range st.sideVals {
			n[a] = b
		}
		st.sideVals = n
		st.sideOwned = true
	}
	st.sideVals[k] = v
}

func iMutexLock(ex *Exec, st *State, fr *Frame, dst ssa.Value, args []Value) {
	k := "mu:" + sideKey(args[0])
	if st.sget(k) != 0 {
		ex.block(st, fmt.Sprintf("Lock(%s held by %s) at %s", k, st.sideStr[k], ex.sitePos(fr, fr.block.Instrs[fr.ip])))
		return
	}
	st.sset(k, 1)
	st.setSideStr(k, st.thread().name)
	st.held = append(append([]string(nil), st.held...), k)
	ex.hbAcquire(st, k)
	ex.ret(fr, dst, nil)
}

func iMutexTryLock(ex *Exec, st *State, fr *Frame, dst ssa.Value, args []Value) {
	k := "mu:" + sideKey(args[0])
	if st.sget(k) != 0 {
		ex.ret(fr, dst, tFalse)
		return
	}
	st.sset(k, 1)
	st.setSideStr(k, st.thread().name)
	st.held = append(append([]string(nil), st.held...), k)
	ex.hbAcquire(st, k)
	ex.ret(fr, dst, tTrue)
}

func iMutexUnlock(ex *Exec, st *State, fr *Frame, dst ssa.Value, args []Value) {
	k := "mu:" + sideKey(args[0])
	if st.sget(k) == 0 {
		ex.goPanic(st, fr, "fatal error: sync: unlock of unlocked mutex", mkStr("sync: unlock of unlocked mutex"), true)
		return
	}
	st.sset(k, 0)
	ex.hbRelease(st, k, true)
	var h []string
	for _, x := range st.held {
		if x != k {
			h = append(h, x)
		}
	}
	st.held = h
	ex.ret(fr, dst, nil)
}

func iWGAdd(ex *Exec, st *State, fr *Frame, dst ssa.Value, args []Value) {
	k := "wg:" + sideKey(args[0])
	d := args[1].(*Term)
	if !d.IsConst() {
		unsup("WaitGroup.Add symbolic")
	}
	n := st.sget(k) + int(d.Int())
	if n < 0 {
		ex.goPanic(st, fr, "sync: negative WaitGroup counter", mkStr("sync: negative WaitGroup counter"), true)
		return
	}
	st.sset(k, n)
	ex.ret(fr, dst, nil)
}

func iWGDone(ex *Exec, st *State, fr *Frame, dst ssa.Value, args []Value) {
	k := "wg:" + sideKey(args[0])
	n := st.sget(k) - 1
	if n < 0 {
		ex.goPanic(st, fr, "sync: negative WaitGroup counter", mkStr("sync: negative WaitGroup counter"), true)
		return
	}
	st.sset(k, n)
	ex.hbRelease(st, k, true)
	ex.ret(fr, dst, nil)
}

func iWGWait(ex *Exec, st *State, fr *Frame, dst ssa.Value, args []Value) {
	k := "wg:" + sideKey(args[0])
	if st.sget(k) > 0 {
		ex.block(st, fmt.Sprintf("WaitGroup.Wait(count=%d) at %s", st.sget(k), ex.sitePos(fr, fr.block.Instrs[fr.ip])))
		return
	}
	ex.hbAcquire(st, k)
	ex.ret(fr, dst, nil)
}

func (ex *Exec) intrinsicReady(st *State, fr *Frame, c *ssa.Call) bool {
	fn := c.Call.StaticCallee()
	if fn == nil {
		return true
	}
	args := make([]Value, len(c.Call.Args))
	for i, a := range c.Call.Args {
		args[i] = ex.get(st, fr, a)
	}
	switch fn.String() {
	case "(*sync.Mutex).Lock", "(*sync.RWMutex).Lock", "(*sync.RWMutex).RLock":
		return st.sget("mu:"+sideKey(args[0])) == 0
	case "(*sync.WaitGroup).Wait":
		return st.sget("wg:"+sideKey(args[0])) == 0
	}
	return true
}

func iOnceDo(ex *Exec, st *State, fr *Frame, dst ssa.Value, args []Value) {
	k := "once:" + sideKey(args[0])
	if st.sget(k) != 0 {
		ex.hbAcquire(st, k)
		ex.ret(fr, dst, nil)
		return
	}
	st.sset(k, 1)
	f := args[1].(*FuncV)
	if !ex.hbOn {
		ex.pushCall(st, f.fn, nil, f.bind, nil)
		return
	}
	// the completion of f happens before the return of every Do
	ex.pushCall(st, f.fn, nil, f.bind, func(ex *Exec, s2 *State, res Value) {
		ex.hbRelease(s2, k, true)
		th := s2.thread()
		if len(th.frames) > 0 {
			th.frames[len(th.frames)-1].ip++
		}
	})
}

func fieldIndex(t types.Type, name string) int {
	s := t.Underlying().(*types.Struct)
	for i := 0; i < s.NumFields(); i++ {
		if s.Field(i).Name() == name {
			return i
		}
	}
	panic("no field " + name + " in " + t.String())
}

func iPoolGet(ex *Exec, st *State, fr *Frame, dst ssa.Value, args []Value) {
	p := args[0].(Ptr)
	pt := ex.P.pkgs["sync"].Type("Pool").Type()
	nf := st.load(p.Elem(fieldIndex(pt, "New")))
	f, _ := nf.(*FuncV)
	if f.IsNil() {
		ex.ret(fr, dst, IfaceV{})
		return
	}
	ex.pushCall(st, f.fn, nil, f.bind, nil)
}

// ------------------------------------------------------------------ atomics (sequential model)

func iAtomicLoad(ex *Exec, st *State, fr *Frame, dst ssa.Value, args []Value) {
	ex.ret(fr, dst, st.load(args[0].(Ptr)))
}
func iAtomicStore(ex *Exec, st *State, fr *Frame, dst ssa.Value, args []Value) {
	st.store(args[0].(Ptr), args[1])
	ex.ret(fr, dst, nil)
}
func iAtomicAdd(ex *Exec, st *State, fr *Frame, dst ssa.Value, args []Value) {
	p := args[0].(Ptr)
	n := mkBin(OpAdd, st.load(p).(*Term), args[1].(*Term))
	st.store(p, n)
	ex.ret(fr, dst, n)
}
func iAtomicCAS(ex *Exec, st *State, fr *Frame, dst ssa.Value, args []Value) {
	p := args[0].(Ptr)
	old := st.load(p).(*Term)
	eq := mkEq(old, args[1].(*Term))
	st.store(p, mkIte(eq, args[2].(*Term), old))
	ex.ret(fr, dst, eq)
}

// ------------------------------------------------------------------ time

func (ex *Exec) timeType() types.Type { return ex.P.pkgs["time"].Type("Time").Type() }

func iTimeNow(ex *Exec, st *State, fr *Frame, dst ssa.Value, args []Value) {
	k := st.clock
	st.clock++
	if v, ok := st.env["VSYM_CLOCK"]; ok && v.conc && v.c == "concrete" {
		// a concrete, strictly increasing clock for harnesses whose property does not involve time
		tt := ex.timeType()
		ts := tt.Underlying().(*types.Struct)
		sv := &StructV{f: make([]Value, ts.NumFields())}
		for i := 0; i < ts.NumFields(); i++ {
			switch ts.Field(i).Name() {
			case "wall":
				sv.f[i] = mkBV(64, 0)
			case "ext":
				sv.f[i] = mkBV(64, uint64(1000000+k))
			default:
				sv.f[i] = zeroVal(ts.Field(i).Type())
			}
		}
		ex.ret(fr, dst, sv)
		return
	}
	sec := mkVar(fmt.Sprintf("clock.sec#%d", k), SBV(64))
	nsec := mkVar(fmt.Sprintf("clock.nsec#%d", k), SBV(64))
	st.inputs = append(st.inputs, InputRec{Name: sec.name, T: sec, Kind: "clock"}, InputRec{Name: nsec.name, T: nsec, Kind: "clock"})
	// sane range: 1 .. 2^40 seconds, nsec < 1e9, lexicographically non-decreasing
	st.addPC(mkCmp(OpUlt, nsec, mkBV(64, 1000000000)))
	st.addPC(mkCmp(OpUlt, sec, mkBV(64, 1<<40)))
	st.addPC(mkCmp(OpUlt, mkBV(64, 0), sec))
	if st.lastSec != nil {
		later := mkOr(mkCmp(OpUlt, st.lastSec, sec), mkAnd(mkEq(st.lastSec, sec), mkCmp(OpUle, st.lastNsec, nsec)))
		st.addPC(later)
	}
	st.lastSec, st.lastNsec = sec, nsec
	// the witness model must satisfy the new constraints: pick values explicitly
	if st.modelOK {
		m := overlay(st.model, nil)
		var ps, pn uint64 = 1, 0
		if k > 0 {
			p1 := mkVar(fmt.Sprintf("clock.sec#%d", k-1), SBV(64))
			p2 := mkVar(fmt.Sprintf("clock.nsec#%d", k-1), SBV(64))
			ps, pn = m[p1.id], m[p2.id]
		}
		m[sec.id], m[nsec.id] = ps, pn
		st.model = m
	}
	tt := ex.timeType()
	ts := tt.Underlying().(*types.Struct)
	sv := &StructV{f: make([]Value, ts.NumFields())}
	for i := 0; i < ts.NumFields(); i++ {
		switch ts.Field(i).Name() {
		case "wall":
			sv.f[i] = nsec
		case "ext":
			sv.f[i] = sec
		default:
			sv.f[i] = zeroVal(ts.Field(i).Type())
		}
	}
	ex.ret(fr, dst, sv)
}

func iTimeSleep(ex *Exec, st *State, fr *Frame, dst ssa.Value, args []Value) {
	st.sleeps = append(st.sleeps, args[0].(*Term))
	ex.ret(fr, dst, nil)
}

func iNewTimer(ex *Exec, st *State, fr *Frame, dst ssa.Value, args []Value) {
	tt := ex.P.pkgs["time"].Type("Timer").Type()
	ts := tt.Underlying().(*types.Struct)
	sv := zeroVal(tt).(*StructV)
	chID := st.alloc(&ChanObj{et: ex.timeType(), cap: 1, name: "timer.C"})
	for i := 0; i < ts.NumFields(); i++ {
		if ts.Field(i).Name() == "C" {
			sv.f[i] = ChanV{obj: chID}
		}
	}
	id := st.alloc(sv)
	st.timers = append(st.timers, id)
	st.sset("timer:"+Ptr{obj: id}.String(), 1)
	ex.ret(fr, dst, Ptr{obj: id})
}

func iTimerStop(ex *Exec, st *State, fr *Frame, dst ssa.Value, args []Value) {
	k := "timer:" + sideKey(args[0])
	act := st.sget(k) != 0
	st.sset(k, 0)
	ex.ret(fr, dst, mkBool(act))
}

func iTimerReset(ex *Exec, st *State, fr *Frame, dst ssa.Value, args []Value) {
	k := "timer:" + sideKey(args[0])
	act := st.sget(k) != 0
	st.sset(k, 1)
	ex.ret(fr, dst, mkBool(act))
}

// fireTimers delivers a tick on every active timer (vsymFireTimers).
func (ex *Exec) fireTimers(st *State) {
	tt := ex.P.pkgs["time"].Type("Timer").Type()
	ci := fieldIndex(tt, "C")
	for _, id := range st.timers {
		k := "timer:" + Ptr{obj: id}.String()
		if st.sget(k) == 0 {
			continue
		}
		st.sset(k, 0)
		ch := st.load(Ptr{obj: id}.Elem(ci)).(ChanV)
		co := st.chanObj(ch)
		if len(co.buf) < co.cap {
			w := st.chanObjW(ch)
			w.buf = append(w.buf, zeroVal(ex.timeType()))
		}
	}
}

// ------------------------------------------------------------------ environment

func iGetenv(ex *Exec, st *State, fr *Frame, dst ssa.Value, args []Value) {
	k := args[0].(*StrV)
	if !k.conc {
		unsup("os.Getenv with symbolic key")
	}
	if v, ok := st.env[k.c]; ok {
		ex.ret(fr, dst, v)
		return
	}
	ex.ret(fr, dst, emptyStr)
}

func iLookupEnv(ex *Exec, st *State, fr *Frame, dst ssa.Value, args []Value) {
	k := args[0].(*StrV)
	if !k.conc {
		unsup("os.LookupEnv with symbolic key")
	}
	if v, ok := st.env[k.c]; ok {
		ex.ret(fr, dst, TupleV{v, tTrue})
		return
	}
	ex.ret(fr, dst, TupleV{emptyStr, tFalse})
}

// ------------------------------------------------------------------ strings / bytes kernels

func matchAt(s, sub *StrV, p int) *Term {
	cs := make([]*Term, 0, sub.Len())
	for j := 0; j < sub.Len(); j++ {
		e := mkEq(s.At(p+j), sub.At(j))
		if isFalse(e) {
			return tFalse
		}
		cs = append(cs, e)
	}
	return mkAnd(cs...)
}

func indexAlts(s, sub *StrV) []Alt {
	n, m := s.Len(), sub.Len()
	var alts []Alt
	var none []*Term
	for p := 0; p+m <= n; p++ {
		c := matchAt(s, sub, p)
		if isFalse(c) {
			continue
		}
		alts = append(alts, Alt{cond: mkAnd(append(append([]*Term(nil), none...), c)...), val: mkBV(64, uint64(p))})
		if isTrue(c) {
			return alts
		}
		none = append(none, mkNot(c))
	}
	alts = append(alts, Alt{cond: mkAnd(none...), val: mkBV(64, ^uint64(0))})
	return alts
}

func iStringsIndex(ex *Exec, st *State, fr *Frame, dst ssa.Value, args []Value) {
	s, sub := args[0].(*StrV), args[1].(*StrV)
	if s.conc && sub.conc {
		ex.ret(fr, dst, mkBV(64, uint64(int64(strings.Index(s.c, sub.c)))))
		return
	}
	ex.forkAlts(st, fr, dst, indexAlts(s, sub))
}

func iIndexByteString(ex *Exec, st *State, fr *Frame, dst ssa.Value, args []Value) {
	s := args[0].(*StrV)
	c := args[1].(*Term)
	ex.forkAlts(st, fr, dst, indexAlts(s, mkStrBytes([]*Term{c})))
}

func iIndexByteSlice(ex *Exec, st *State, fr *Frame, dst ssa.Value, args []Value) {
	s := st.sliceToStr(args[0].(SliceV))
	c := args[1].(*Term)
	ex.forkAlts(st, fr, dst, indexAlts(s, mkStrBytes([]*Term{c})))
}

func iMakeNoZero(ex *Exec, st *State, fr *Frame, dst ssa.Value, args []Value) {
	n := args[0].(*Term)
	if !n.IsConst() {
		unsup("MakeNoZero symbolic length")
	}
	elems := make([]Value, int(n.Int()))
	for i := range elems {
		elems[i] = mkBV(8, 0)
	}
	ex.ret(fr, dst, st.newSlice(elems))
}

func countTerm(s *StrV, c *Term) *Term {
	acc := mkBV(64, 0)
	for i := 0; i < s.Len(); i++ {
		acc = mkBin(OpAdd, acc, mkIte(mkEq(s.At(i), c), mkBV(64, 1), mkBV(64, 0)))
	}
	return acc
}

func iCountString(ex *Exec, st *State, fr *Frame, dst ssa.Value, args []Value) {
	ex.ret(fr, dst, countTerm(args[0].(*StrV), args[1].(*Term)))
}

func iCountSlice(ex *Exec, st *State, fr *Frame, dst ssa.Value, args []Value) {
	ex.ret(fr, dst, countTerm(st.sliceToStr(args[0].(SliceV)), args[1].(*Term)))
}

func iBytesEqual(ex *Exec, st *State, fr *Frame, dst ssa.Value, args []Value) {
	a, b := st.sliceToStr(args[0].(SliceV)), st.sliceToStr(args[1].(SliceV))
	ex.ret(fr, dst, strEq(a, b))
}

// ---- strings.Builder (its copyCheck uses unsafe)

func builderBuf(ex *Exec, p Value) Ptr {
	pp := p.(Ptr)
	bt := ex.P.pkgs["strings"].Type("Builder").Type()
	return pp.Elem(fieldIndex(bt, "buf"))
}

func iBuilderWriteString(ex *Exec, st *State, fr *Frame, dst ssa.Value, args []Value) {
	bp := builderBuf(ex, args[0])
	s := args[1].(*StrV)
	st.store(bp, ex.appendSlice(st, st.load(bp).(SliceV), s))
	ex.ret(fr, dst, TupleV{mkBV(64, uint64(s.Len())), IfaceV{}})
}

func iBuilderWrite(ex *Exec, st *State, fr *Frame, dst ssa.Value, args []Value) {
	bp := builderBuf(ex, args[0])
	s := args[1].(SliceV)
	st.store(bp, ex.appendSlice(st, st.load(bp).(SliceV), s))
	ex.ret(fr, dst, TupleV{mkBV(64, uint64(s.len)), IfaceV{}})
}

func iBuilderWriteByte(ex *Exec, st *State, fr *Frame, dst ssa.Value, args []Value) {
	bp := builderBuf(ex, args[0])
	st.store(bp, ex.appendSlice(st, st.load(bp).(SliceV), mkStrBytes([]*Term{args[1].(*Term)})))
	ex.ret(fr, dst, IfaceV{})
}

func iBuilderString(ex *Exec, st *State, fr *Frame, dst ssa.Value, args []Value) {
	bp := builderBuf(ex, args[0])
	ex.ret(fr, dst, st.sliceToStr(st.load(bp).(SliceV)))
}

func iBuilderLen(ex *Exec, st *State, fr *Frame, dst ssa.Value, args []Value) {
	bp := builderBuf(ex, args[0])
	ex.ret(fr, dst, mkBV(64, uint64(st.load(bp).(SliceV).len)))
}

func iBuilderReset(ex *Exec, st *State, fr *Frame, dst ssa.Value, args []Value) {
	bp := builderBuf(ex, args[0])
	st.store(bp, SliceV{})
	ex.ret(fr, dst, nil)
}

// ------------------------------------------------------------------ integer formatting

// fmtIntAlts returns, for every feasible digit count, the condition and the
// digit string of v in the given base (v is treated as unsigned magnitude).
func (ex *Exec) fmtUintAlts(st *State, v *Term, base int, upper bool) []Alt {
	n := v.sort.Bits
	if v.IsConst() {
		s := strconv.FormatUint(v.val, base)
		if upper {
			s = strings.ToUpper(s)
		}
		return []Alt{{cond: tTrue, val: mkStr(s)}}
	}
	v64 := mkZext(v, 64)
	_ = n
	maxv := umax(v64)
	var alts []Alt
	digitChar := func(d *Term) *Term { // d is BV8 in 0..base-1
		if base <= 10 {
			return mkBin(OpAdd, d, mkBV(8, '0'))
		}
		a := byte('a')
		if upper {
			a = 'A'
		}
		return mkIte(mkCmp(OpUlt, d, mkBV(8, 10)), mkBin(OpAdd, d, mkBV(8, '0')), mkBin(OpAdd, d, mkBV(8, uint64(a-10))))
	}
	if base == 16 || base == 8 || base == 2 {
		sh := map[int]int{16: 4, 8: 3, 2: 1}[base]
		maxDigits := (64 + sh - 1) / sh
		for k := 1; k <= maxDigits; k++ {
			lo := uint64(0)
			if k > 1 {
				lo = uint64(1) << uint(sh*(k-1))
			}
			if lo > maxv {
				break
			}
			if lo > 0 {
				if can, _ := ex.feasibleOne(st, mkCmp(OpUle, mkBV(64, lo), v64)); !can {
					break
				}
			}
			var cond *Term
			if k*sh >= 64 {
				cond = mkCmp(OpUle, mkBV(64, lo), v64)
			} else {
				hi := uint64(1) << uint(sh*k)
				cond = mkAnd(mkCmp(OpUle, mkBV(64, lo), v64), mkCmp(OpUlt, v64, mkBV(64, hi)))
			}
			bs := make([]*Term, k)
			for i := 0; i < k; i++ {
				lob := sh * i
				hib := lob + sh - 1
				if hib > 63 {
					hib = 63
				}
				d := mkZext(mkExtract(v64, hib, lob), 8)
				bs[k-1-i] = digitChar(d)
			}
			alts = append(alts, Alt{cond: cond, val: mkStrBytes(bs)})
		}
		return alts
	}
	if base != 10 {
		unsup("format base %d", base)
	}
	pow := uint64(1)
	for k := 1; k <= 20; k++ {
		lo := pow
		if k == 1 {
			lo = 0
		}
		if lo > maxv {
			break
		}
		if lo > 0 {
			// larger magnitudes are all infeasible once this one is: one query prunes the rest
			if can, _ := ex.feasibleOne(st, mkCmp(OpUle, mkBV(64, lo), v64)); !can {
				break
			}
		}
		var hi uint64
		last := k == 20
		if !last {
			hi = pow * 10
		}
		ds := make([]*Term, k)
		var defs []*Term
		for i := 0; i < k; i++ {
			// named after the value term: formatting the same value twice yields the same digits
			d := mkVar(fmt.Sprintf("digit.t%d.%d.%d", v64.id, k, i), SBV(8))
			ds[i] = d
			defs = append(defs, mkCmp(OpUle, d, mkBV(8, 9)))
		}
		// Horner form, most significant digit first: exactly the term a decimal
		// parser (v = v*10 + digit) builds, so decode(format(v)) is syntactically v's definition
		sum := mkZext(ds[k-1], 64)
		for i := k - 2; i >= 0; i-- {
			sum = mkBin(OpAdd, mkBin(OpMul, sum, mkBV(64, 10)), mkZext(ds[i], 64))
		}
		if k > 1 {
			defs = append(defs, mkCmp(OpUle, mkBV(8, 1), ds[k-1]))
		}
		var cs []*Term
		cs = append(cs, mkCmp(OpUle, mkBV(64, lo), v64))
		if !last {
			cs = append(cs, mkCmp(OpUlt, v64, mkBV(64, hi)))
		}
		defs = append(defs, mkEq(sum, v64))
		bs := make([]*Term, k)
		for i := 0; i < k; i++ {
			bs[k-1-i] = digitChar(ds[i])
		}
		kk := k
		dsc := ds
		alts = append(alts, Alt{cond: mkAnd(cs...), val: mkStrBytes(bs), defs: defs, fix: func(m Model) Model {
			val, ok := evalTerm(v64, m)
			if !ok {
				return m
			}
			nm := overlay(m, nil)
			for i := 0; i < kk; i++ {
				nm[dsc[i].id] = val % 10
				val /= 10
			}
			return nm
		}})
		if last {
			break
		}
		pow *= 10
	}
	return alts
}

// fmtIntAlts: signed decimal etc.
func (ex *Exec) fmtIntAlts(st *State, v *Term, signed bool, base int, upper bool) []Alt {
	if !signed || v.IsConst() && v.Int() >= 0 {
		return ex.fmtUintAlts(st, v, base, upper)
	}
	if v.IsConst() {
		s := strconv.FormatInt(v.Int(), base)
		if upper {
			s = strings.ToUpper(s)
		}
		return []Alt{{cond: tTrue, val: mkStr(s)}}
	}
	v64 := mkSext(v, 64)
	neg := mkCmp(OpSlt, v64, mkBV(64, 0))
	var alts []Alt
	if umax(v64) < 1<<63 {
		// syntactically non-negative
		return ex.fmtUintAlts(st, v64, base, upper)
	}
	canNeg, _ := ex.feasibleOne(st, neg)
	if !canNeg {
		// non-negative on this path: format as the unsigned value bounded by MaxInt64
		st.addPC(mkNot(neg))
		return ex.fmtUintAlts(st, v64, base, upper)
	}
	// positive side: explore under the assumption (temporarily) that v >= 0
	stPos := *st
	stPos.pc = append(append([]*Term(nil), st.pc...), mkNot(neg))
	stPos.modelOK = false
	for _, a := range ex.fmtUintAlts(&stPos, v64, base, upper) {
		alts = append(alts, Alt{cond: mkAnd(mkNot(neg), a.cond), val: a.val, defs: a.defs, fix: a.fix})
	}
	mag := mkNeg(v64)
	stNeg := *st
	stNeg.pc = append(append([]*Term(nil), st.pc...), neg)
	stNeg.modelOK = false
	for _, a := range ex.fmtUintAlts(&stNeg, mag, base, upper) {
		alts = append(alts, Alt{cond: mkAnd(neg, a.cond), val: strConcat(mkStr("-"), a.val.(*StrV)), defs: a.defs, fix: a.fix})
	}
	return alts
}

func iItoa(ex *Exec, st *State, fr *Frame, dst ssa.Value, args []Value) {
	v := args[0].(*Term)
	ex.forkAlts(st, fr, dst, ex.fmtIntAlts(st, v, true, 10, false))
}

// ------------------------------------------------------------------ fmt.Sprintf (subset)

type fmtSpec struct {
	minus, plus, sharp, space, zero bool
	width, prec                     int
	hasWidth, hasPrec               bool
	verb                            byte
}

func pad(s *StrV, sp fmtSpec, numeric bool) *StrV {
	if !sp.hasWidth || s.Len() >= sp.width {
		return s
	}
	n := sp.width - s.Len()
	if sp.minus {
		return strConcat(s, mkStr(strings.Repeat(" ", n)))
	}
	if sp.zero && numeric {
		// zeros go after the sign
		if s.Len() > 0 {
			if b := s.At(0); b.IsConst() && (b.val == '-' || b.val == '+' || b.val == ' ') {
				return strConcat(s.Slice(0, 1), strConcat(mkStr(strings.Repeat("0", n)), s.Slice(1, s.Len())))
			}
		}
		return strConcat(mkStr(strings.Repeat("0", n)), s)
	}
	if sp.zero && !numeric {
		return strConcat(mkStr(strings.Repeat("0", n)), s)
	}
	return strConcat(mkStr(strings.Repeat(" ", n)), s)
}

type fmtPiece struct {
	lit  *StrV
	alts []Alt // alternatives for a symbolic piece
}

func (ex *Exec) sprintf(st *State, format *StrV, args []Value) []fmtPiece {
	if !format.conc {
		unsup("fmt.Sprintf with symbolic format string")
	}
	f := format.c
	var pieces []fmtPiece
	argi := 0
	i := 0
	for i < len(f) {
		j := strings.IndexByte(f[i:], '%')
		if j < 0 {
			pieces = append(pieces, fmtPiece{lit: mkStr(f[i:])})
			break
		}
		if j > 0 {
			pieces = append(pieces, fmtPiece{lit: mkStr(f[i : i+j])})
		}
		i += j + 1
		if i >= len(f) {
			pieces = append(pieces, fmtPiece{lit: mkStr("%!(NOVERB)")})
			break
		}
		var sp fmtSpec
	flags:
		for i < len(f) {
			switch f[i] {
			case '-':
				sp.minus = true
			case '+':
				sp.plus = true
			case '#':
				sp.sharp = true
			case ' ':
				sp.space = true
			case '0':
				sp.zero = true
			default:
				break flags
			}
			i++
		}
		for i < len(f) && f[i] >= '0' && f[i] <= '9' {
			sp.width = sp.width*10 + int(f[i]-'0')
			sp.hasWidth = true
			i++
		}
		if i < len(f) && f[i] == '.' {
			i++
			sp.hasPrec = true
			for i < len(f) && f[i] >= '0' && f[i] <= '9' {
				sp.prec = sp.prec*10 + int(f[i]-'0')
				i++
			}
		}
		if i >= len(f) {
			pieces = append(pieces, fmtPiece{lit: mkStr("%!(NOVERB)")})
			break
		}
		sp.verb = f[i]
		i++
		if sp.verb == '%' {
			pieces = append(pieces, fmtPiece{lit: mkStr("%")})
			continue
		}
		if argi >= len(args) {
			pieces = append(pieces, fmtPiece{lit: mkStr("%!" + string(sp.verb) + "(MISSING)")})
			continue
		}
		arg := args[argi].(IfaceV)
		argi++
		pieces = append(pieces, ex.fmtArg(st, sp, arg))
	}
	if argi < len(args) {
		unsup("fmt.Sprintf with extra arguments")
	}
	return pieces
}

func (ex *Exec) fmtArg(st *State, sp fmtSpec, arg IfaceV) fmtPiece {
	if arg.t == nil {
		return fmtPiece{lit: mkStr("%!" + string(sp.verb) + "(<nil>)")}
	}
	switch v := arg.v.(type) {
	case *StrV:
		switch sp.verb {
		case 's', 'v':
			s := v
			if sp.hasPrec && sp.prec < s.Len() {
				if !s.conc {
					// precision counts runes: bytes == runes only for ASCII
					for _, b := range s.Bytes() {
						if umax(b) >= 0x80 {
							unsup("%%.Ns on symbolic non-ASCII string")
						}
					}
					s = s.Slice(0, sp.prec)
				} else {
					r := []rune(s.c)
					if sp.prec < len(r) {
						s = mkStr(string(r[:sp.prec]))
					}
				}
			}
			if sp.hasWidth && !s.conc {
				// width counts runes: require ASCII
				for _, b := range s.Bytes() {
					if umax(b) >= 0x80 {
						unsup("%%Ns width on symbolic non-ASCII string")
					}
				}
			}
			return fmtPiece{lit: pad(s, sp, false)}
		case 'd', 'x', 'X', 'o', 'c':
			if v.conc {
				return fmtPiece{lit: mkStr(fmt.Sprintf(specString(sp), v.c))}
			}
			unsup("integer verb on symbolic string")
		}
	case *Term:
		if v.sort.K == KBool {
			if v.IsConst() {
				return fmtPiece{lit: mkStr(fmt.Sprintf(specString(sp), v.Bool()))}
			}
			unsup("format symbolic bool")
		}
		if v.sort.K == KFP {
			if v.IsConst() {
				return fmtPiece{lit: mkStr(fmt.Sprintf(specString(sp), v.Float()))}
			}
			unsup("format symbolic float")
		}
		_, signed, _ := typeIntBits(arg.t)
		if v.IsConst() {
			var s string
			if signed {
				s = fmt.Sprintf(specString(sp), v.Int())
			} else {
				s = fmt.Sprintf(specString(sp), v.val)
			}
			return fmtPiece{lit: mkStr(s)}
		}
		base := 10
		upper := false
		switch sp.verb {
		case 'd', 'v':
		case 'x':
			base = 16
		case 'X':
			base, upper = 16, true
		case 'o':
			base = 8
		case 'c':
			// rune: run through AppendRune semantics is not available here; ASCII only
			if umax(v) < 0x80 {
				return fmtPiece{lit: pad(mkStrBytes([]*Term{mkExtract(mkZext(v, 64), 7, 0)}), sp, false)}
			}
			unsup("%%c on symbolic value that may be >= 0x80")
		default:
			unsup("verb %%%c on symbolic integer", sp.verb)
		}
		if sp.hasPrec {
			unsup("precision on symbolic integer")
		}
		alts := ex.fmtIntAlts(st, v, signed, base, upper)
		out := make([]Alt, len(alts))
		for i, a := range alts {
			s := a.val.(*StrV)
			if sp.sharp {
				switch sp.verb {
				case 'x':
					s = strConcat(mkStr("0x"), s)
				case 'X':
					s = strConcat(mkStr("0X"), s)
				case 'o':
					s = strConcat(mkStr("0"), s)
				}
			}
			if b := s.At(0); !(b.IsConst() && b.val == '-') {
				if sp.plus {
					s = strConcat(mkStr("+"), s)
				} else if sp.space {
					s = strConcat(mkStr(" "), s)
				}
			}
			out[i] = Alt{cond: a.cond, val: pad(s, sp, !sp.minus), defs: a.defs, fix: a.fix}
		}
		return fmtPiece{alts: out}
	}
	unsup("fmt verb %%%c on %T", sp.verb, arg.v)
	return fmtPiece{}
}

func specString(sp fmtSpec) string {
	s := "%"
	if sp.minus {
		s += "-"
	}
	if sp.plus {
		s += "+"
	}
	if sp.sharp {
		s += "#"
	}
	if sp.space {
		s += " "
	}
	if sp.zero {
		s += "0"
	}
	if sp.hasWidth {
		s += strconv.Itoa(sp.width)
	}
	if sp.hasPrec {
		s += "." + strconv.Itoa(sp.prec)
	}
	return s + string(sp.verb)
}

// combine pieces into alternatives (cartesian product over symbolic pieces)
func combinePieces(pieces []fmtPiece) []Alt {
	res := []Alt{{cond: tTrue, val: emptyStr}}
	for _, p := range pieces {
		if p.alts == nil {
			for i := range res {
				res[i].val = strConcat(res[i].val.(*StrV), p.lit)
			}
			continue
		}
		var nr []Alt
		for _, r := range res {
			for _, a := range p.alts {
				na := Alt{cond: mkAnd(r.cond, a.cond), val: strConcat(r.val.(*StrV), a.val.(*StrV))}
				na.defs = append(append([]*Term(nil), r.defs...), a.defs...)
				f1, f2 := r.fix, a.fix
				na.fix = func(m Model) Model {
					if f1 != nil {
						m = f1(m)
					}
					if f2 != nil {
						m = f2(m)
					}
					return m
				}
				nr = append(nr, na)
			}
		}
		res = nr
		if len(res) > 4096 {
			unsup("fmt.Sprintf alternative explosion")
		}
	}
	return res
}

func iSprintf(ex *Exec, st *State, fr *Frame, dst ssa.Value, args []Value) {
	format := args[0].(*StrV)
	va := append([]Value(nil), st.sliceVals(args[1].(SliceV))...)
	ex.withConcreteStr(st, fr, format, func(ex *Exec, s2 *State, f2 *Frame, f *StrV) {
		alts := combinePieces(ex.sprintf(s2, f, va))
		ex.forkAlts(s2, f2, dst, alts)
	})
}

// withConcreteStr pins the symbolic bytes of s one at a time (forking over
// their feasible values, at most 64 each) and calls cont with a concrete string.
func (ex *Exec) withConcreteStr(st *State, fr *Frame, s *StrV, cont func(ex *Exec, s2 *State, f2 *Frame, c *StrV)) {
	if s.conc {
		cont(ex, st, fr, s)
		return
	}
	bs := s.Bytes()
	idx := -1
	for i, b := range bs {
		if !b.IsConst() {
			idx = i
			break
		}
	}
	vals, ok := ex.concretize(st, bs[idx], 64)
	if !ok || len(vals) == 0 {
		unsup("symbolic string byte with more than 64 feasible values where a concrete string is required")
	}
	var alts []Alt
	for _, v := range vals {
		v := v
		alts = append(alts, Alt{cond: mkEq(bs[idx], mkBV(8, v)), then: func(ex *Exec, s2 *State, f2 *Frame) {
			nb := append([]*Term(nil), bs...)
			nb[idx] = mkBV(8, v)
			ex.withConcreteStr(s2, f2, mkStrBytes(nb), cont)
		}})
	}
	ex.forkAlts(st, fr, nil, alts)
}

func iErrorf(ex *Exec, st *State, fr *Frame, dst ssa.Value, args []Value) {
	// error values' text is never the subject: build an errors.errorString with the format text
	format := args[0].(*StrV)
	fn := ex.P.lookupFunc("errors", "New")
	ex.pushCall(st, fn, []Value{format}, nil, nil)
}

// ------------------------------------------------------------------ reflect.DeepEqual (slices of scalars)

func iDeepEqual(ex *Exec, st *State, fr *Frame, dst ssa.Value, args []Value) {
	a, b := args[0].(IfaceV), args[1].(IfaceV)
	if a.t == nil || b.t == nil {
		ex.ret(fr, dst, mkBool(a.t == nil && b.t == nil))
		return
	}
	if !types.Identical(a.t, b.t) {
		ex.ret(fr, dst, tFalse)
		return
	}
	sa, ok1 := a.v.(SliceV)
	sb, ok2 := b.v.(SliceV)
	if !ok1 || !ok2 {
		unsup("reflect.DeepEqual on %T", a.v)
	}
	if sa.IsNil() != sb.IsNil() || sa.len != sb.len {
		ex.ret(fr, dst, tFalse)
		return
	}
	va, vb := st.sliceVals(sa), st.sliceVals(sb)
	cs := make([]*Term, len(va))
	for i := range va {
		cs[i] = valEq(va[i], vb[i])
	}
	ex.ret(fr, dst, mkAnd(cs...))
}

func iIsNaN(ex *Exec, st *State, fr *Frame, dst ssa.Value, args []Value) {
	ex.ret(fr, dst, mkFIsNaN(args[0].(*Term)))
}

func iIsInf(ex *Exec, st *State, fr *Frame, dst ssa.Value, args []Value) {
	f := args[0].(*Term)
	sign := args[1].(*Term)
	if !sign.IsConst() {
		unsup("math.IsInf symbolic sign")
	}
	pinf := mkFCmp(OpFEq, f, mkFP(math.Inf(1)))
	ninf := mkFCmp(OpFEq, f, mkFP(math.Inf(-1)))
	switch s := sign.Int(); {
	case s > 0:
		ex.ret(fr, dst, pinf)
	case s < 0:
		ex.ret(fr, dst, ninf)
	default:
		ex.ret(fr, dst, mkOr(pinf, ninf))
	}
}

func iInf(ex *Exec, st *State, fr *Frame, dst ssa.Value, args []Value) {
	s := args[0].(*Term)
	if !s.IsConst() {
		unsup("math.Inf symbolic")
	}
	if s.Int() >= 0 {
		ex.ret(fr, dst, mkFP(math.Inf(1)))
	} else {
		ex.ret(fr, dst, mkFP(math.Inf(-1)))
	}
}

// fpIntKey: an argument of the form float64(int)/const is represented by the
// integer (exact: x/255.0 is injective on int32), which keeps FP division out
// of the congruence reasoning for the uninterpreted distance.
func fpIntKey(t *Term) *Term {
	if t.op == OpFDiv && t.args[1].op == OpConst && (t.args[0].op == OpFFromSBV || t.args[0].op == OpFFromUBV) {
		return mkSext(t.args[0].args[0], 64)
	}
	if t.op == OpConst {
		return mkBV(64, t.val)
	}
	return nil
}

// DistanceCIE76 is an uninterpreted Float64 function of the two colours when an
// argument is symbolic (C16: FindColor is optimal for whatever the library
// returns); with concrete colours the real code runs.
func iDistanceCIE76(ex *Exec, st *State, fr *Frame, dst ssa.Value, args []Value) {
	a, b := args[0].(*StructV), args[1].(*StructV)
	allConst := true
	var keys []*Term
	for _, sv := range []*StructV{a, b} {
		for _, f := range sv.f {
			t := f.(*Term)
			if !t.IsConst() {
				allConst = false
			}
			k := fpIntKey(t)
			if k == nil {
				k = mkUF("fpbits", SBV(64), t)
			}
			keys = append(keys, k)
		}
	}
	if allConst {
		fn := ex.P.lookupMethod(ex.P.pkgs["github.com/lucasb-eyer/go-colorful"].Type("Color").Type(), "DistanceCIE76")
		ex.pushCall(st, fn, args, nil, nil)
		return
	}
	// two facts about the library function are kept (both hold for every pair of colours,
	// the real function being a Euclidean norm): d(x,x) = 0 and d is NaN or >= 0
	same := true
	for i := 0; i < len(keys)/2; i++ {
		if keys[i] != keys[i+len(keys)/2] {
			same = false
		}
	}
	if same {
		ex.ret(fr, dst, mkFP(0))
		return
	}
	d := mkUF("cie76", SFP, keys...)
	st.addPC(mkOr(mkFIsNaN(d), mkFCmp(OpFLe, mkFP(0), d)))
	var eqs []*Term
	for i := 0; i < len(keys)/2; i++ {
		eqs = append(eqs, mkNot(mkEq(keys[i], keys[i+len(keys)/2])))
	}
	st.addPC(mkOr(append(eqs, mkFCmp(OpFEq, d, mkFP(0)))...))
	ex.ret(fr, dst, d)
}
