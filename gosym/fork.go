package main

import (
	"os"
	"sort"
	"strconv"
	"strings"
)

type qres struct {
	r Result
	m Model
}

// Branch feasibility.  Every live state carries a witness model of its path
// condition (when the condition is evaluable, i.e. free of uninterpreted
// functions), so one side of every branch is known feasible for free; the
// other side costs one solver query over the slice of the path condition
// that shares variables with the branch condition.

func (ex *Exec) pcSlice(st *State, c *Term) []*Term {
	vars := map[int32]bool{}
	for _, v := range c.Vars() {
		vars[v] = true
	}
	used := make([]bool, len(st.pc))
	var out []*Term
	changed := true
	for changed {
		changed = false
		for i, p := range st.pc {
			if used[i] {
				continue
			}
			pv := p.Vars()
			hit := len(pv) == 0
			for _, v := range pv {
				if vars[v] {
					hit = true
					break
				}
			}
			if hit {
				used[i] = true
				out = append(out, p)
				for _, v := range pv {
					if !vars[v] {
						vars[v] = true
						changed = true
					}
				}
			}
		}
	}
	return out
}

var auditDom = os.Getenv("GOSYM_AUDIT") != ""

func overlay(base, over Model) Model {
	m := make(Model, len(base)+len(over))
	for k, v := range base {
		m[k] = v
	}
	for k, v := range over {
		m[k] = v
	}
	return m
}

// feasibleOne: is pc ∧ c satisfiable?  Returns a witness when known.
func (ex *Exec) feasibleOne(st *State, c *Term) (bool, Model) {
	if isTrue(c) {
		return true, st.model
	}
	if isFalse(c) {
		return false, nil
	}
	if st.modelOK {
		if v, ok := evalTerm(c, st.model); ok && v != 0 {
			ex.modelHits++
			return true, st.model
		}
	}
	return ex.query(st, c)
}

func (ex *Exec) query(st *State, c *Term) (bool, Model) {
	if f, m, ok := ex.domDecide(st, c); ok {
		ex.domPrunes++
		if auditDom {
			r, _ := ex.solver.Check(append(append([]*Term(nil), st.pc...), c), false)
			if (r == Sat) != f && r != Unknown {
				ex.inconclusive("AUDIT: byte-domain decision disagrees with the solver at " + ex.where(st))
			}
		}
		return f, m
	}
	conj := append(ex.pcSlice(st, c), c)
	// identical (slice, condition) queries recur across sibling paths: memoise
	ids := make([]int, len(conj))
	for i, t := range conj {
		ids[i] = int(t.id)
	}
	sort.Ints(ids[:len(ids)-1])
	var kb strings.Builder
	for _, id := range ids {
		kb.WriteString(strconv.Itoa(id))
		kb.WriteByte(',')
	}
	key := kb.String()
	if ex.qcache == nil {
		ex.qcache = map[string]qres{}
	}
	if e, ok := ex.qcache[key]; ok {
		ex.qcacheHits++
		switch e.r {
		case Unsat:
			return false, nil
		case Sat:
			if st.modelOK {
				return true, overlay(st.model, e.m)
			}
			return true, e.m
		}
	}
	if f, m, ok := ex.jointDecide(st, conj); ok {
		ex.jointDecisions++
		r := Unsat
		if f {
			r = Sat
		}
		if auditDom {
			if rs, _ := ex.solver.Check(conj, false); rs != Unknown && rs != r {
				ex.inconclusive("AUDIT: joint-domain decision disagrees with the solver at " + ex.where(st))
			}
		}
		if len(ex.qcache) < 2000000 {
			ex.qcache[key] = qres{r, m}
		}
		if !f {
			return false, nil
		}
		if st.modelOK {
			return true, overlay(st.model, m)
		}
		return true, m
	}
	ex.queriesBr++
	r, m := ex.solver.Check(conj, true)
	if r != Unknown && len(ex.qcache) < 2000000 {
		ex.qcache[key] = qres{r, m}
	}
	switch r {
	case Unsat:
		return false, nil
	case Sat:
		if st.modelOK {
			return true, overlay(st.model, m)
		}
		return true, m
	default:
		// unknown: keep the branch (sound for violation finding), record
		ex.inconclusive("solver unknown on branch query at " + ex.where(st))
		return true, nil
	}
}

func (ex *Exec) feasible(st *State, c *Term) (canT, canF bool, mT, mF Model) {
	known := false
	if st.modelOK {
		if v, ok := evalTerm(c, st.model); ok {
			known = true
			ex.modelHits++
			if v != 0 {
				canT, mT = true, st.model
				canF, mF = ex.query(st, mkNot(c))
			} else {
				canF, mF = true, st.model
				canT, mT = ex.query(st, c)
			}
		}
	}
	if !known {
		canT, mT = ex.query(st, c)
		canF, mF = ex.query(st, mkNot(c))
	}
	return
}

func (ex *Exec) inconclusive(why string) {
	if len(ex.incon) < 50 {
		ex.incon = append(ex.incon, why)
	}
}

// jointDecide decides a sliced query (conjuncts incl. the condition) exactly by
// enumeration when it mentions at most three input variables, each with an explicit
// small domain (8-bit inputs; wider ones bounded by range constraints), and the product
// of the domain sizes is at most 4096: every combination is evaluated on all conjuncts.
// This is what keeps lookups in large constant tables (charset decoders: ite chains over
// a thousand cells) away from the bit-blaster.  Used for branch feasibility only;
// assertions always go to the solver.  GOSYM_AUDIT=1 re-checks each answer with the solver.
func (ex *Exec) jointDecide(st *State, conj []*Term) (bool, Model, bool) {
	seen := map[int32]bool{}
	var vars []int32
	for _, t := range conj {
		for _, v := range t.Vars() {
			if v < 0 {
				return false, nil, false
			}
			if !seen[v] {
				seen[v] = true
				vars = append(vars, v)
			}
		}
	}
	if len(vars) == 0 || len(vars) > 3 {
		return false, nil, false
	}
	doms := make([][]uint64, len(vars))
	total := 1
	for k, id := range vars {
		vt := varTerm(id)
		if vt == nil || vt.sort.K != KBV {
			return false, nil, false
		}
		if w := st.wide[id]; (w == nil || w.vals == nil) && vt.sort.Bits != 8 {
			return false, nil, false
		}
		doms[k] = st.domValues(id)
		total *= len(doms[k])
		if total > 4096 {
			return false, nil, false
		}
	}
	if total == 0 {
		return false, nil, true
	}
	m := Model{}
	bad := false
	var rec func(k int) bool
	rec = func(k int) bool {
		if k == len(vars) {
			for _, t := range conj {
				v, ok := evalTerm(t, m)
				if !ok {
					bad = true
					return false
				}
				if v == 0 {
					return false
				}
			}
			return true
		}
		for _, v := range doms[k] {
			m[vars[k]] = v
			if rec(k + 1) {
				return true
			}
			if bad {
				return false
			}
		}
		return false
	}
	if rec(0) {
		out := Model{}
		for _, id := range vars {
			out[id] = m[id]
		}
		return true, out, true
	}
	if bad {
		return false, nil, false
	}
	return false, nil, true
}
