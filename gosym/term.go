package main

// Hash-consed SMT term DAG with constant folding and local rewrites.
// Sorts: Bool, BitVec(n) with n<=64, Float64.  A concrete Go value is an
// OpConst term, so "is concrete" == t.op==OpConst.

import (
	"fmt"
	"math"
	"math/bits"
	"strings"
	"sync"
	"sync/atomic"
)

type SortKind uint8

const (
	KBool SortKind = iota
	KBV
	KFP // float64
)

type Sort struct {
	K    SortKind
	Bits int
}

var (
	SBool = Sort{KBool, 1}
	SFP   = Sort{KFP, 64}
)

func SBV(n int) Sort { return Sort{KBV, n} }

func (s Sort) smt() string {
	switch s.K {
	case KBool:
		return "Bool"
	case KBV:
		return fmt.Sprintf("(_ BitVec %d)", s.Bits)
	default:
		return "(_ FloatingPoint 11 53)"
	}
}

type Op uint8

const (
	OpConst Op = iota
	OpVar
	OpNot
	OpAnd
	OpOr
	OpIte
	OpEq
	OpAdd
	OpSub
	OpMul
	OpUDiv
	OpURem
	OpSDiv
	OpSRem
	OpBAnd
	OpBOr
	OpBXor
	OpBNot
	OpNeg
	OpShl
	OpLShr
	OpAShr
	OpUlt
	OpUle
	OpSlt
	OpSle
	OpExtract // aux = hi<<8|lo
	OpConcat
	OpZext
	OpSext
	OpUF // name, args; sort = result
	// floating point (float64, RNE)
	OpFAdd
	OpFSub
	OpFMul
	OpFDiv
	OpFNeg
	OpFLt
	OpFLe
	OpFEq // IEEE ==
	OpFIsNaN
	OpFFromSBV // signed int -> float64 (RNE)
	OpFFromUBV
	OpFToSBV // float64 -> signed bv (RTZ), sort = target
	OpFToUBV
	OpFFromBits // reinterpret bv64 as fp
	OpFAbs
)

var opNames = map[Op]string{
	OpNot: "not", OpAnd: "and", OpOr: "or", OpIte: "ite", OpEq: "=",
	OpAdd: "bvadd", OpSub: "bvsub", OpMul: "bvmul", OpUDiv: "bvudiv", OpURem: "bvurem",
	OpSDiv: "bvsdiv", OpSRem: "bvsrem", OpBAnd: "bvand", OpBOr: "bvor", OpBXor: "bvxor",
	OpBNot: "bvnot", OpNeg: "bvneg", OpShl: "bvshl", OpLShr: "bvlshr", OpAShr: "bvashr",
	OpUlt: "bvult", OpUle: "bvule", OpSlt: "bvslt", OpSle: "bvsle", OpConcat: "concat",
	OpFAdd: "fp.add RNE", OpFSub: "fp.sub RNE", OpFMul: "fp.mul RNE", OpFDiv: "fp.div RNE",
	OpFNeg: "fp.neg", OpFLt: "fp.lt", OpFLe: "fp.leq", OpFEq: "fp.eq", OpFIsNaN: "fp.isNaN",
	OpFAbs: "fp.abs",
}

type Term struct {
	id   int32
	op   Op
	sort Sort
	args []*Term
	val  uint64 // const value (masked) / fp bits
	aux  int
	name string
	// lazily computed: sorted ids of OpVar terms below
	varsP atomic.Pointer[[]int32]
}

func (t *Term) IsConst() bool  { return t.op == OpConst }
func (t *Term) String() string { return termString(t, 0) }

func termString(t *Term, depth int) string {
	switch t.op {
	case OpConst:
		switch t.sort.K {
		case KBool:
			if t.val != 0 {
				return "true"
			}
			return "false"
		case KBV:
			return fmt.Sprintf("%d:%d", t.val, t.sort.Bits)
		default:
			return fmt.Sprintf("%v", math.Float64frombits(t.val))
		}
	case OpVar:
		return t.name
	}
	if depth > 6 {
		return fmt.Sprintf("t%d", t.id)
	}
	var sb strings.Builder
	sb.WriteString("(")
	if n, ok := opNames[t.op]; ok {
		sb.WriteString(n)
	} else if t.op == OpUF {
		sb.WriteString(t.name)
	} else if t.op == OpExtract {
		fmt.Fprintf(&sb, "extract[%d:%d]", t.aux>>8, t.aux&0xff)
	} else {
		fmt.Fprintf(&sb, "op%d", t.op)
	}
	for _, a := range t.args {
		sb.WriteString(" ")
		sb.WriteString(termString(a, depth+1))
	}
	sb.WriteString(")")
	return sb.String()
}

// ---------------------------------------------------------------- table

type termKey struct {
	op         Op
	sort       Sort
	a0, a1, a2 int32
	val        uint64
	aux        int
	name       string
	extra      string // more than 3 args
}

const nShards = 64

type termShard struct {
	mu sync.Mutex
	m  map[termKey]*Term
}

var (
	termShards [nShards]termShard
	termSeq    int32
	termByID   sync.Map // id -> *Term (only vars, for model decoding)
)

func intern(op Op, sort Sort, val uint64, aux int, name string, args ...*Term) *Term {
	k := termKey{op: op, sort: sort, val: val, aux: aux, name: name, a0: -1, a1: -1, a2: -1}
	if len(args) > 0 {
		k.a0 = args[0].id
	}
	if len(args) > 1 {
		k.a1 = args[1].id
	}
	if len(args) > 2 {
		k.a2 = args[2].id
	}
	if len(args) > 3 {
		var sb strings.Builder
		for _, a := range args[3:] {
			fmt.Fprintf(&sb, "%d,", a.id)
		}
		k.extra = sb.String()
	}
	h := uint32(op)*31 + uint32(k.a0)*17 + uint32(k.a1)*7 + uint32(val) + uint32(aux)*3 + uint32(len(name))
	sh := &termShards[h%nShards]
	sh.mu.Lock()
	if sh.m == nil {
		sh.m = make(map[termKey]*Term)
	}
	if t, ok := sh.m[k]; ok {
		sh.mu.Unlock()
		return t
	}
	t := &Term{id: atomic.AddInt32(&termSeq, 1), op: op, sort: sort, val: val, aux: aux, name: name}
	if len(args) > 0 {
		t.args = append([]*Term(nil), args...)
	}
	sh.m[k] = t
	sh.mu.Unlock()
	if op == OpVar {
		termByID.Store(t.id, t)
	}
	return t
}

func mask(bits int) uint64 {
	if bits >= 64 {
		return ^uint64(0)
	}
	return (uint64(1) << uint(bits)) - 1
}

func signExt(v uint64, bits int) int64 {
	if bits >= 64 {
		return int64(v)
	}
	sh := uint(64 - bits)
	return int64(v<<sh) >> sh
}

var (
	tTrue  = intern(OpConst, SBool, 1, 0, "")
	tFalse = intern(OpConst, SBool, 0, 0, "")
)

func mkBool(b bool) *Term {
	if b {
		return tTrue
	}
	return tFalse
}
func mkBV(bits int, v uint64) *Term { return intern(OpConst, SBV(bits), v&mask(bits), 0, "") }
func mkFP(f float64) *Term          { return intern(OpConst, SFP, math.Float64bits(f), 0, "") }
func mkVar(name string, s Sort) *Term {
	return intern(OpVar, s, 0, 0, name)
}

func (t *Term) Bool() bool     { return t.val != 0 }
func (t *Term) Uint() uint64   { return t.val }
func (t *Term) Int() int64     { return signExt(t.val, t.sort.Bits) }
func (t *Term) Float() float64 { return math.Float64frombits(t.val) }
func isTrue(t *Term) bool      { return t == tTrue }
func isFalse(t *Term) bool     { return t == tFalse }

func mkNot(a *Term) *Term {
	if a.op == OpConst {
		return mkBool(a.val == 0)
	}
	if a.op == OpNot {
		return a.args[0]
	}
	return intern(OpNot, SBool, 0, 0, "", a)
}

func mkAnd(xs ...*Term) *Term {
	var out []*Term
	for _, x := range xs {
		if isFalse(x) {
			return tFalse
		}
		if isTrue(x) {
			continue
		}
		if x.op == OpAnd {
			for _, y := range x.args {
				out = appendUniq(out, y)
			}
			continue
		}
		out = appendUniq(out, x)
	}
	for _, x := range out {
		if x.op == OpNot {
			for _, y := range out {
				if y == x.args[0] {
					return tFalse
				}
			}
		}
	}
	switch len(out) {
	case 0:
		return tTrue
	case 1:
		return out[0]
	}
	return intern(OpAnd, SBool, 0, 0, "", out...)
}

func appendUniq(xs []*Term, x *Term) []*Term {
	for _, y := range xs {
		if y == x {
			return xs
		}
	}
	return append(xs, x)
}

func mkOr(xs ...*Term) *Term {
	var out []*Term
	for _, x := range xs {
		if isTrue(x) {
			return tTrue
		}
		if isFalse(x) {
			continue
		}
		if x.op == OpOr {
			for _, y := range x.args {
				out = appendUniq(out, y)
			}
			continue
		}
		out = appendUniq(out, x)
	}
	for _, x := range out {
		if x.op == OpNot {
			for _, y := range out {
				if y == x.args[0] {
					return tTrue
				}
			}
		}
	}
	switch len(out) {
	case 0:
		return tFalse
	case 1:
		return out[0]
	}
	return intern(OpOr, SBool, 0, 0, "", out...)
}

func mkImplies(a, b *Term) *Term { return mkOr(mkNot(a), b) }

func mkIte(c, a, b *Term) *Term {
	if c.op == OpConst {
		if c.val != 0 {
			return a
		}
		return b
	}
	if a == b {
		return a
	}
	if a.sort != b.sort {
		panic(fmt.Sprintf("ite sort mismatch %v %v", a.sort, b.sort))
	}
	if a.sort.K == KBool {
		if isTrue(a) && isFalse(b) {
			return c
		}
		if isFalse(a) && isTrue(b) {
			return mkNot(c)
		}
		if isTrue(a) {
			return mkOr(c, b)
		}
		if isFalse(a) {
			return mkAnd(mkNot(c), b)
		}
		if isTrue(b) {
			return mkOr(mkNot(c), a)
		}
		if isFalse(b) {
			return mkAnd(c, a)
		}
	}
	if c.op == OpNot {
		return mkIte(c.args[0], b, a)
	}
	return intern(OpIte, a.sort, 0, 0, "", c, a, b)
}

func mkEq(a, b *Term) *Term {
	if a == b {
		if a.sort.K == KFP {
			// structural equality on FP sort: same term ⇒ equal (SMT '=' not fp.eq)
			return tTrue
		}
		return tTrue
	}
	if a.sort != b.sort {
		panic(fmt.Sprintf("eq sort mismatch %v %v: %v %v", a.sort, b.sort, a, b))
	}
	if a.op == OpConst && b.op == OpConst {
		return mkBool(a.val == b.val)
	}
	if a.op == OpConst {
		a, b = b, a
	}
	if a.sort.K == KBool {
		if b.op == OpConst {
			if b.val != 0 {
				return a
			}
			return mkNot(a)
		}
	}
	if b.op == OpConst && a.sort.K == KBV {
		if b.val > umax(a) {
			return tFalse
		}
		// (x | c) == k  and  (x & c) == k
		if a.op == OpBOr && a.args[1].op == OpConst {
			c := a.args[1].val
			if b.val&c != c {
				return tFalse
			}
			return mkEq(mkBin(OpBAnd, a.args[0], mkBV(a.sort.Bits, ^c)), mkBV(a.sort.Bits, b.val&^c))
		}
		if a.op == OpBAnd && a.args[1].op == OpConst {
			c := a.args[1].val
			if b.val&^c != 0 {
				return tFalse
			}
		}
		// ite(c, k1, k2) == k  with constants
		if a.op == OpIte && a.args[1].op == OpConst && a.args[2].op == OpConst {
			e1 := a.args[1].val == b.val
			e2 := a.args[2].val == b.val
			switch {
			case e1 && e2:
				return tTrue
			case e1:
				return a.args[0]
			case e2:
				return mkNot(a.args[0])
			default:
				return tFalse
			}
		}
		// zext(x) == k
		if a.op == OpZext {
			in := a.args[0]
			if b.val > mask(in.sort.Bits) {
				return tFalse
			}
			return mkEq(in, mkBV(in.sort.Bits, b.val))
		}
		if a.op == OpSext {
			in := a.args[0]
			tv := mkBV(in.sort.Bits, b.val)
			if uint64(signExt(tv.val, in.sort.Bits))&mask(a.sort.Bits) != b.val {
				return tFalse
			}
			return mkEq(in, tv)
		}
		// x + k1 == k  → x == k-k1
		if a.op == OpAdd && a.args[1].op == OpConst {
			return mkEq(a.args[0], mkBV(a.sort.Bits, b.val-a.args[1].val))
		}
		if a.op == OpSub && a.args[1].op == OpConst {
			return mkEq(a.args[0], mkBV(a.sort.Bits, b.val+a.args[1].val))
		}
		if a.op == OpConcat {
			hi, lo := a.args[0], a.args[1]
			return mkAnd(mkEq(hi, mkBV(hi.sort.Bits, b.val>>uint(lo.sort.Bits))), mkEq(lo, mkBV(lo.sort.Bits, b.val)))
		}
	}
	if a.id > b.id && b.op != OpConst {
		a, b = b, a
	}
	return intern(OpEq, SBool, 0, 0, "", a, b)
}

func mkNe(a, b *Term) *Term { return mkNot(mkEq(a, b)) }

func foldBin(op Op, bitsN int, x, y uint64) (uint64, bool) {
	m := mask(bitsN)
	sx, sy := signExt(x, bitsN), signExt(y, bitsN)
	switch op {
	case OpAdd:
		return (x + y) & m, true
	case OpSub:
		return (x - y) & m, true
	case OpMul:
		return (x * y) & m, true
	case OpUDiv:
		if y == 0 {
			return m, true
		}
		return (x / y) & m, true
	case OpURem:
		if y == 0 {
			return x, true
		}
		return (x % y) & m, true
	case OpSDiv:
		if y == 0 {
			if sx < 0 {
				return 1, true
			}
			return m, true
		}
		if sx == math.MinInt64 && sy == -1 {
			return x, true
		}
		return uint64(sx/sy) & m, true
	case OpSRem:
		if y == 0 {
			return x, true
		}
		if sy == -1 {
			return 0, true
		}
		return uint64(sx%sy) & m, true
	case OpBAnd:
		return x & y, true
	case OpBOr:
		return x | y, true
	case OpBXor:
		return x ^ y, true
	case OpShl:
		if y >= uint64(bitsN) {
			return 0, true
		}
		return (x << y) & m, true
	case OpLShr:
		if y >= uint64(bitsN) {
			return 0, true
		}
		return (x >> y) & m, true
	case OpAShr:
		if y >= uint64(bitsN) {
			if sx < 0 {
				return m, true
			}
			return 0, true
		}
		return uint64(sx>>y) & m, true
	}
	return 0, false
}

func mkBin(op Op, a, b *Term) *Term {
	if a.sort != b.sort || a.sort.K != KBV {
		panic(fmt.Sprintf("mkBin %v sort mismatch %v %v", opNames[op], a.sort, b.sort))
	}
	n := a.sort.Bits
	if a.op == OpConst && b.op == OpConst {
		v, _ := foldBin(op, n, a.val, b.val)
		return mkBV(n, v)
	}
	switch op {
	case OpAdd:
		if a.op == OpConst {
			a, b = b, a
		}
		if b.op == OpConst {
			if b.val == 0 {
				return a
			}
			if a.op == OpAdd && a.args[1].op == OpConst {
				return mkBin(OpAdd, a.args[0], mkBV(n, a.args[1].val+b.val))
			}
			if a.op == OpSub && a.args[1].op == OpConst {
				return mkBin(OpAdd, a.args[0], mkBV(n, b.val-a.args[1].val))
			}
		}
	case OpSub:
		if a == b {
			return mkBV(n, 0)
		}
		if b.op == OpConst {
			if b.val == 0 {
				return a
			}
			return mkBin(OpAdd, a, mkBV(n, -b.val))
		}
	case OpMul:
		if a.op == OpConst {
			a, b = b, a
		}
		if b.op == OpConst {
			if b.val == 0 {
				return b
			}
			if b.val == 1 {
				return a
			}
		}
	case OpBAnd:
		if a == b {
			return a
		}
		if a.op == OpConst {
			a, b = b, a
		}
		if b.op == OpConst {
			if b.val == 0 {
				return b
			}
			if b.val == mask(n) {
				return a
			}
			// zext(x) & k  where k covers all of x's bits
			if a.op == OpZext && b.val&mask(a.args[0].sort.Bits) == mask(a.args[0].sort.Bits) {
				return a
			}
			// x & k == 0 when every set bit of k lies above x's range
			if lowbit := b.val & -b.val; lowbit != 0 && umax(a) < lowbit {
				return mkBV(n, 0)
			}
			// (x | c) & k  =  (x & k) | (c & k)
			if a.op == OpBOr && a.args[1].op == OpConst {
				return mkBin(OpBOr, mkBin(OpBAnd, a.args[0], b), mkBV(n, a.args[1].val&b.val))
			}
			// (x & c) & k = x & (c&k)
			if a.op == OpBAnd && a.args[1].op == OpConst {
				return mkBin(OpBAnd, a.args[0], mkBV(n, a.args[1].val&b.val))
			}
		}
	case OpBOr:
		if a == b {
			return a
		}
		if a.op == OpConst {
			a, b = b, a
		}
		if b.op == OpConst {
			if b.val == 0 {
				return a
			}
			if b.val == mask(n) {
				return b
			}
		}
	case OpBXor:
		if a == b {
			return mkBV(n, 0)
		}
		if a.op == OpConst {
			a, b = b, a
		}
		if b.op == OpConst && b.val == 0 {
			return a
		}
	case OpShl, OpLShr, OpAShr:
		if b.op == OpConst && b.val == 0 {
			return a
		}
		if a.op == OpConst && a.val == 0 {
			return a
		}
		if b.op == OpConst && b.val >= uint64(n) && op != OpAShr {
			return mkBV(n, 0)
		}
		// lshr(zext(x), k) with k >= bits(x) → 0
		if op == OpLShr && b.op == OpConst && a.op == OpZext && b.val >= uint64(a.args[0].sort.Bits) {
			return mkBV(n, 0)
		}
	case OpUDiv, OpSDiv:
		if b.op == OpConst && b.val == 1 {
			return a
		}
	}
	return intern(op, a.sort, 0, 0, "", a, b)
}

func mkBNot(a *Term) *Term {
	if a.op == OpConst {
		return mkBV(a.sort.Bits, ^a.val)
	}
	if a.op == OpBNot {
		return a.args[0]
	}
	return intern(OpBNot, a.sort, 0, 0, "", a)
}

func mkNeg(a *Term) *Term {
	if a.op == OpConst {
		return mkBV(a.sort.Bits, -a.val)
	}
	return intern(OpNeg, a.sort, 0, 0, "", a)
}

// unsigned range of a term, cheap syntactic bound: returns max value
func umax(t *Term) uint64 {
	switch t.op {
	case OpConst:
		return t.val
	case OpZext:
		return umax(t.args[0])
	case OpIte:
		a, b := umax(t.args[1]), umax(t.args[2])
		if a > b {
			return a
		}
		return b
	case OpBAnd:
		a, b := umax(t.args[0]), umax(t.args[1])
		if a < b {
			return a
		}
		return b
	case OpBOr, OpBXor:
		a, b := umax(t.args[0]), umax(t.args[1])
		// smallest all-ones value covering both
		m := a | b
		m |= m >> 1
		m |= m >> 2
		m |= m >> 4
		m |= m >> 8
		m |= m >> 16
		m |= m >> 32
		return m
	case OpExtract:
		return mask(t.sort.Bits)
	case OpAdd:
		a, b := umax(t.args[0]), umax(t.args[1])
		if s := a + b; s >= a && s <= mask(t.sort.Bits) {
			return s
		}
	case OpConcat:
		return umax(t.args[0])<<uint(t.args[1].sort.Bits) | umax(t.args[1])
	case OpLShr:
		if t.args[1].op == OpConst && t.args[1].val < 64 {
			return umax(t.args[0]) >> t.args[1].val
		}
	case OpURem:
		if t.args[1].op == OpConst && t.args[1].val > 0 {
			return t.args[1].val - 1
		}
	}
	return mask(t.sort.Bits)
}

func mkCmp(op Op, a, b *Term) *Term {
	if a.sort != b.sort || a.sort.K != KBV {
		panic(fmt.Sprintf("mkCmp sort mismatch %v %v", a.sort, b.sort))
	}
	n := a.sort.Bits
	if a.op == OpConst && b.op == OpConst {
		switch op {
		case OpUlt:
			return mkBool(a.val < b.val)
		case OpUle:
			return mkBool(a.val <= b.val)
		case OpSlt:
			return mkBool(signExt(a.val, n) < signExt(b.val, n))
		case OpSle:
			return mkBool(signExt(a.val, n) <= signExt(b.val, n))
		}
	}
	if a == b {
		return mkBool(op == OpUle || op == OpSle)
	}
	if op == OpUlt && b.op == OpConst && b.val == 0 {
		return tFalse
	}
	if op == OpUle && a.op == OpConst && a.val == 0 {
		return tTrue
	}
	if op == OpUlt && b.op == OpConst && b.val == 1 {
		return mkEq(a, mkBV(n, 0))
	}
	// cheap range reasoning for zero-extended small values
	if n > 8 {
		ma, mb := umax(a), umax(b)
		half := uint64(1) << uint(n-1)
		if ma < half && mb < half {
			// both non-negative: signed == unsigned
			if op == OpSlt {
				op = OpUlt
			} else if op == OpSle {
				op = OpUle
			}
		}
		if op == OpUlt && b.op == OpConst && b.val == 0 {
			return tFalse
		}
		if op == OpUlt || op == OpUle {
			if b.op == OpConst {
				if op == OpUlt && ma < b.val {
					return tTrue
				}
				if op == OpUle && ma <= b.val {
					return tTrue
				}
			}
			if a.op == OpConst {
				if op == OpUlt && a.val >= mb {
					return tFalse
				}
				if op == OpUle && a.val > mb {
					return tFalse
				}
			}
			// narrow zext compare
			if a.op == OpZext && b.op == OpConst && b.val <= mask(a.args[0].sort.Bits) {
				in := a.args[0]
				return mkCmp(op, in, mkBV(in.sort.Bits, b.val))
			}
			if b.op == OpZext && a.op == OpConst && a.val <= mask(b.args[0].sort.Bits) {
				in := b.args[0]
				return mkCmp(op, mkBV(in.sort.Bits, a.val), in)
			}
			if a.op == OpZext && b.op == OpZext && a.args[0].sort == b.args[0].sort {
				return mkCmp(op, a.args[0], b.args[0])
			}
		}
	}
	return intern(op, SBool, 0, 0, "", a, b)
}

func mkExtract(a *Term, hi, lo int) *Term {
	if lo == 0 && hi == a.sort.Bits-1 {
		return a
	}
	w := hi - lo + 1
	if a.op == OpConst {
		return mkBV(w, a.val>>uint(lo))
	}
	if a.op == OpZext || a.op == OpSext {
		in := a.args[0]
		if hi < in.sort.Bits {
			return mkExtract(in, hi, lo)
		}
		if a.op == OpZext && lo >= in.sort.Bits {
			return mkBV(w, 0)
		}
		if lo == 0 && a.op == OpZext {
			return mkZext(in, w)
		}
		if lo == 0 && a.op == OpSext {
			return mkSext(in, w)
		}
	}
	if a.op == OpExtract {
		l0 := a.aux & 0xff
		return mkExtract(a.args[0], hi+l0, lo+l0)
	}
	if a.op == OpConcat {
		lw := a.args[1].sort.Bits
		if hi < lw {
			return mkExtract(a.args[1], hi, lo)
		}
		if lo >= lw {
			return mkExtract(a.args[0], hi-lw, lo-lw)
		}
	}
	if a.op == OpIte && a.args[1].op == OpConst && a.args[2].op == OpConst {
		return mkIte(a.args[0], mkExtract(a.args[1], hi, lo), mkExtract(a.args[2], hi, lo))
	}
	// extract low bits distributes over add/sub/mul/and/or/xor: keeps terms narrow (byte(x+1))
	if lo == 0 {
		switch a.op {
		case OpAdd, OpSub, OpMul, OpBAnd, OpBOr, OpBXor:
			x, y := a.args[0], a.args[1]
			if isNarrowable(x, w) && isNarrowable(y, w) {
				return mkBin(a.op, mkExtract(x, hi, 0), mkExtract(y, hi, 0))
			}
		}
	}
	return intern(OpExtract, SBV(w), 0, hi<<8|lo, "", a)
}

func isNarrowable(t *Term, w int) bool {
	switch t.op {
	case OpConst:
		return true
	case OpZext, OpSext:
		return true
	}
	return false
}

func mkConcat(hi, lo *Term) *Term {
	w := hi.sort.Bits + lo.sort.Bits
	if hi.op == OpConst && lo.op == OpConst {
		return mkBV(w, hi.val<<uint(lo.sort.Bits)|lo.val)
	}
	if hi.op == OpConst && hi.val == 0 {
		return mkZext(lo, w)
	}
	return intern(OpConcat, SBV(w), 0, 0, "", hi, lo)
}

func mkZext(a *Term, to int) *Term {
	if to == a.sort.Bits {
		return a
	}
	if to < a.sort.Bits {
		return mkExtract(a, to-1, 0)
	}
	if a.op == OpConst {
		return mkBV(to, a.val)
	}
	if a.op == OpZext {
		return mkZext(a.args[0], to)
	}
	if a.op == OpIte && a.args[1].op == OpConst && a.args[2].op == OpConst {
		return mkIte(a.args[0], mkZext(a.args[1], to), mkZext(a.args[2], to))
	}
	return intern(OpZext, SBV(to), 0, 0, "", a)
}

func mkSext(a *Term, to int) *Term {
	if to == a.sort.Bits {
		return a
	}
	if to < a.sort.Bits {
		return mkExtract(a, to-1, 0)
	}
	if a.op == OpConst {
		return mkBV(to, uint64(signExt(a.val, a.sort.Bits)))
	}
	if a.op == OpZext {
		// zero-extended value has a clear sign bit
		return mkZext(a.args[0], to)
	}
	if a.op == OpSext {
		return mkSext(a.args[0], to)
	}
	if a.op == OpIte && a.args[1].op == OpConst && a.args[2].op == OpConst {
		return mkIte(a.args[0], mkSext(a.args[1], to), mkSext(a.args[2], to))
	}
	return intern(OpSext, SBV(to), 0, 0, "", a)
}

func mkUF(name string, s Sort, args ...*Term) *Term {
	return intern(OpUF, s, 0, 0, name, args...)
}

// ---- floating point

func mkFBin(op Op, a, b *Term) *Term {
	if a.op == OpConst && b.op == OpConst {
		x, y := a.Float(), b.Float()
		switch op {
		case OpFAdd:
			return mkFP(x + y)
		case OpFSub:
			return mkFP(x - y)
		case OpFMul:
			return mkFP(x * y)
		case OpFDiv:
			return mkFP(x / y)
		}
	}
	return intern(op, SFP, 0, 0, "", a, b)
}

func mkFCmp(op Op, a, b *Term) *Term {
	if a.op == OpConst && b.op == OpConst {
		x, y := a.Float(), b.Float()
		switch op {
		case OpFLt:
			return mkBool(x < y)
		case OpFLe:
			return mkBool(x <= y)
		case OpFEq:
			return mkBool(x == y)
		}
	}
	return intern(op, SBool, 0, 0, "", a, b)
}

func mkFNeg(a *Term) *Term {
	if a.op == OpConst {
		return mkFP(-a.Float())
	}
	return intern(OpFNeg, SFP, 0, 0, "", a)
}

func mkFIsNaN(a *Term) *Term {
	if a.op == OpConst {
		return mkBool(math.IsNaN(a.Float()))
	}
	return intern(OpFIsNaN, SBool, 0, 0, "", a)
}

func mkFFromInt(a *Term, signed bool) *Term {
	if a.op == OpConst {
		if signed {
			return mkFP(float64(a.Int()))
		}
		return mkFP(float64(a.val))
	}
	if signed {
		return intern(OpFFromSBV, SFP, 0, 0, "", a)
	}
	return intern(OpFFromUBV, SFP, 0, 0, "", a)
}

func mkFToInt(a *Term, bitsN int, signed bool) *Term {
	if a.op == OpConst {
		f := a.Float()
		if signed {
			return mkBV(bitsN, uint64(int64(f)))
		}
		return mkBV(bitsN, uint64(f))
	}
	if signed {
		return intern(OpFToSBV, SBV(bitsN), 0, 0, "", a)
	}
	return intern(OpFToUBV, SBV(bitsN), 0, 0, "", a)
}

// ---------------------------------------------------------------- variables of a term

func (t *Term) Vars() []int32 {
	if p := t.varsP.Load(); p != nil {
		return *p
	}
	var out []int32
	switch t.op {
	case OpConst:
	case OpVar:
		out = []int32{t.id}
	default:
		for _, a := range t.args {
			out = mergeSorted(out, a.Vars())
		}
		if t.op == OpUF {
			// uninterpreted functions link constraints like variables do
			h := int32(0)
			for i := 0; i < len(t.name); i++ {
				h = h*31 + int32(t.name[i])
			}
			if h > 0 {
				h = -h
			}
			if h == 0 {
				h = -1
			}
			out = mergeSorted(out, []int32{h})
		}
	}
	t.varsP.Store(&out)
	return out
}

func mergeSorted(a, b []int32) []int32 {
	if len(a) == 0 {
		return b
	}
	if len(b) == 0 {
		return a
	}
	out := make([]int32, 0, len(a)+len(b))
	i, j := 0, 0
	for i < len(a) && j < len(b) {
		switch {
		case a[i] < b[j]:
			out = append(out, a[i])
			i++
		case a[i] > b[j]:
			out = append(out, b[j])
			j++
		default:
			out = append(out, a[i])
			i++
			j++
		}
	}
	out = append(out, a[i:]...)
	out = append(out, b[j:]...)
	return out
}

// ---------------------------------------------------------------- evaluation under a model

type Model map[int32]uint64

type evalCtx struct {
	m    Model
	memo map[int32]uint64
	uf   func(name string, args []uint64) (uint64, bool)
	bad  bool // hit an uninterpreted function or unsupported op
}

func evalTerm(t *Term, m Model) (uint64, bool) {
	c := &evalCtx{m: m, memo: make(map[int32]uint64)}
	v := c.eval(t)
	return v, !c.bad
}

func (c *evalCtx) eval(t *Term) uint64 {
	switch t.op {
	case OpConst:
		return t.val
	case OpVar:
		return c.m[t.id] & mask(t.sort.Bits)
	}
	if v, ok := c.memo[t.id]; ok {
		return v
	}
	var v uint64
	b2u := func(b bool) uint64 {
		if b {
			return 1
		}
		return 0
	}
	switch t.op {
	case OpNot:
		v = 1 - c.eval(t.args[0])
	case OpAnd:
		v = 1
		for _, a := range t.args {
			if c.eval(a) == 0 {
				v = 0
				break
			}
		}
	case OpOr:
		v = 0
		for _, a := range t.args {
			if c.eval(a) != 0 {
				v = 1
				break
			}
		}
	case OpIte:
		if c.eval(t.args[0]) != 0 {
			v = c.eval(t.args[1])
		} else {
			v = c.eval(t.args[2])
		}
	case OpEq:
		v = b2u(c.eval(t.args[0]) == c.eval(t.args[1]))
	case OpAdd, OpSub, OpMul, OpUDiv, OpURem, OpSDiv, OpSRem, OpBAnd, OpBOr, OpBXor, OpShl, OpLShr, OpAShr:
		v, _ = foldBin(t.op, t.sort.Bits, c.eval(t.args[0]), c.eval(t.args[1]))
	case OpBNot:
		v = ^c.eval(t.args[0]) & mask(t.sort.Bits)
	case OpNeg:
		v = -c.eval(t.args[0]) & mask(t.sort.Bits)
	case OpUlt:
		v = b2u(c.eval(t.args[0]) < c.eval(t.args[1]))
	case OpUle:
		v = b2u(c.eval(t.args[0]) <= c.eval(t.args[1]))
	case OpSlt:
		n := t.args[0].sort.Bits
		v = b2u(signExt(c.eval(t.args[0]), n) < signExt(c.eval(t.args[1]), n))
	case OpSle:
		n := t.args[0].sort.Bits
		v = b2u(signExt(c.eval(t.args[0]), n) <= signExt(c.eval(t.args[1]), n))
	case OpExtract:
		hi, lo := t.aux>>8, t.aux&0xff
		v = (c.eval(t.args[0]) >> uint(lo)) & mask(hi-lo+1)
	case OpConcat:
		v = c.eval(t.args[0])<<uint(t.args[1].sort.Bits) | c.eval(t.args[1])
	case OpZext:
		v = c.eval(t.args[0])
	case OpSext:
		v = uint64(signExt(c.eval(t.args[0]), t.args[0].sort.Bits)) & mask(t.sort.Bits)
	case OpFAdd, OpFSub, OpFMul, OpFDiv:
		x, y := math.Float64frombits(c.eval(t.args[0])), math.Float64frombits(c.eval(t.args[1]))
		var r float64
		switch t.op {
		case OpFAdd:
			r = x + y
		case OpFSub:
			r = x - y
		case OpFMul:
			r = x * y
		case OpFDiv:
			r = x / y
		}
		v = math.Float64bits(r)
	case OpFNeg:
		v = math.Float64bits(-math.Float64frombits(c.eval(t.args[0])))
	case OpFAbs:
		v = math.Float64bits(math.Abs(math.Float64frombits(c.eval(t.args[0]))))
	case OpFLt, OpFLe, OpFEq:
		x, y := math.Float64frombits(c.eval(t.args[0])), math.Float64frombits(c.eval(t.args[1]))
		switch t.op {
		case OpFLt:
			v = b2u(x < y)
		case OpFLe:
			v = b2u(x <= y)
		case OpFEq:
			v = b2u(x == y)
		}
	case OpFIsNaN:
		v = b2u(math.IsNaN(math.Float64frombits(c.eval(t.args[0]))))
	case OpFFromSBV:
		v = math.Float64bits(float64(signExt(c.eval(t.args[0]), t.args[0].sort.Bits)))
	case OpFFromUBV:
		v = math.Float64bits(float64(c.eval(t.args[0])))
	case OpFToSBV:
		v = uint64(int64(math.Float64frombits(c.eval(t.args[0])))) & mask(t.sort.Bits)
	case OpFToUBV:
		v = uint64(math.Float64frombits(c.eval(t.args[0]))) & mask(t.sort.Bits)
	case OpFFromBits:
		v = c.eval(t.args[0])
	case OpUF:
		args := make([]uint64, len(t.args))
		for i, a := range t.args {
			args[i] = c.eval(a)
		}
		if c.uf != nil {
			if r, ok := c.uf(t.name, args); ok {
				v = r & mask(t.sort.Bits)
				break
			}
		}
		c.bad = true
	default:
		c.bad = true
	}
	c.memo[t.id] = v
	return v
}

// popcount helper used by domain code
func popcnt256(d *[4]uint64) int {
	return bits.OnesCount64(d[0]) + bits.OnesCount64(d[1]) + bits.OnesCount64(d[2]) + bits.OnesCount64(d[3])
}
