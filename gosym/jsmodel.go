package main

// A model of syscall/js sufficient for tcell's js/wasm screen: JavaScript
// globals are a name -> value table; functions are Go funcs wrapped by
// js.FuncOf; js.Value carries the id of a heap object holding its payload.
// The same harness runs natively under Node, where the stand-ins it registers
// with js.Global().Set are real JavaScript-visible functions.

import (
	"go/types"

	"golang.org/x/tools/go/ssa"
)

func init() {
	intrinsics["syscall/js.Global"] = iJSGlobal
	intrinsics["(syscall/js.Value).Set"] = iJSSet
	intrinsics["(syscall/js.Value).Call"] = iJSCall
	intrinsics["(syscall/js.Value).Int"] = iJSInt
	intrinsics["(syscall/js.Value).Bool"] = iJSBool
	intrinsics["(syscall/js.Value).String"] = iJSString
	intrinsics["syscall/js.FuncOf"] = iJSFuncOf
	intrinsics["syscall/js.ValueOf"] = iJSValueOf
	intrinsics["(syscall/js.Func).Release"] = iNop
}

const jsGlobalRef = 1 << 40

func (ex *Exec) jsValueType() types.Type { return ex.P.pkgs["syscall/js"].Type("Value").Type() }

func (ex *Exec) jsMkValue(ref uint64) *StructV {
	t := ex.jsValueType()
	sv := zeroVal(t).(*StructV)
	sv.f[fieldIndex(t, "ref")] = mkBV(64, ref)
	return sv
}

func (ex *Exec) jsRef(v Value) uint64 {
	sv, ok := v.(*StructV)
	if !ok {
		unsup("js value of unexpected shape %T", v)
	}
	// js.Func embeds Value as its first field
	if len(sv.f) > 0 {
		if inner, ok := sv.f[0].(*StructV); ok {
			sv = inner
		}
	}
	t := ex.jsValueType()
	r := sv.f[fieldIndex(t, "ref")].(*Term)
	if !r.IsConst() {
		unsup("symbolic js reference")
	}
	return r.val
}

func iJSGlobal(ex *Exec, st *State, fr *Frame, dst ssa.Value, args []Value) {
	ex.ret(fr, dst, ex.jsMkValue(jsGlobalRef))
}

func (ex *Exec) jsWrap(st *State, x Value) *StructV {
	// already a js.Value / js.Func?
	if iv, ok := x.(IfaceV); ok {
		if iv.t == nil {
			return ex.jsMkValue(0) // undefined
		}
		if n, ok := iv.t.(*types.Named); ok && n.Obj().Pkg() != nil && n.Obj().Pkg().Path() == "syscall/js" {
			sv := iv.v.(*StructV)
			if n.Obj().Name() == "Func" {
				return sv.f[0].(*StructV)
			}
			return sv
		}
	}
	id := st.alloc(x)
	return ex.jsMkValue(uint64(id))
}

func iJSValueOf(ex *Exec, st *State, fr *Frame, dst ssa.Value, args []Value) {
	ex.ret(fr, dst, ex.jsWrap(st, args[0]))
}

func iJSFuncOf(ex *Exec, st *State, fr *Frame, dst ssa.Value, args []Value) {
	fn := args[0].(*FuncV)
	id := st.alloc(fn)
	ft := ex.P.pkgs["syscall/js"].Type("Func").Type()
	sv := zeroVal(ft).(*StructV)
	sv.f[0] = ex.jsMkValue(uint64(id))
	ex.ret(fr, dst, sv)
}

func (st *State) jsSetGlobal(name string, v Value) {
	n := make(map[string]Value, len(st.jsGlobals)+1)
	for k, x := range st.jsGlobals {
		n[k] = x
	}
	n[name] = v
	st.jsGlobals = n
}

func iJSSet(ex *Exec, st *State, fr *Frame, dst ssa.Value, args []Value) {
	if ex.jsRef(args[0]) != jsGlobalRef {
		unsup("js Set on a non-global object")
	}
	name := concStr(args[1], "js property name")
	st.jsSetGlobal(name, ex.jsWrap(st, args[2]))
	ex.ret(fr, dst, nil)
}

func iJSCall(ex *Exec, st *State, fr *Frame, dst ssa.Value, args []Value) {
	if ex.jsRef(args[0]) != jsGlobalRef {
		unsup("js Call on a non-global object")
	}
	name := concStr(args[1], "js method name")
	target, ok := st.jsGlobals[name]
	if !ok {
		// a JavaScript function nobody defined: the call throws in a browser
		ex.goPanic(st, fr, "JavaScript error: "+name+" is not a function", mkStr("js: "+name+" is not a function"), true)
		return
	}
	ref := ex.jsRef(target)
	fn, isFn := st.heap.get(int(ref)).v.(*FuncV)
	if !isFn {
		unsup("js global %s is not a function", name)
	}
	var jsArgs []Value
	for _, a := range st.sliceVals(args[2].(SliceV)) {
		jsArgs = append(jsArgs, ex.jsWrap(st, a))
	}
	argSlice := st.newSlice(jsArgs)
	ex.pushCall(st, fn.fn, []Value{ex.jsMkValue(0), argSlice}, fn.bind, func(ex *Exec, s2 *State, res Value) {
		f2 := s2.top()
		if dst != nil {
			f2.regs[f2.info.index[dst]] = ex.jsWrap(s2, res)
		}
		f2.ip++
	})
}

func (ex *Exec) jsPayload(st *State, v Value) Value {
	ref := ex.jsRef(v)
	if ref == 0 || ref == jsGlobalRef {
		unsup("js value has no Go payload")
	}
	p := st.heap.get(int(ref)).v
	if iv, ok := p.(IfaceV); ok {
		return iv
	}
	unsup("js payload %T", p)
	return nil
}

func iJSInt(ex *Exec, st *State, fr *Frame, dst ssa.Value, args []Value) {
	iv := ex.jsPayload(st, args[0]).(IfaceV)
	t, ok := iv.v.(*Term)
	if !ok || t.sort.K != KBV {
		ex.goPanic(st, fr, "syscall/js: call of Value.Int on non-number", mkStr("js: Int on non-number"), true)
		return
	}
	ex.ret(fr, dst, toInt64(t, iv.t))
}

func iJSBool(ex *Exec, st *State, fr *Frame, dst ssa.Value, args []Value) {
	iv := ex.jsPayload(st, args[0]).(IfaceV)
	t, ok := iv.v.(*Term)
	if !ok || t.sort.K != KBool {
		ex.goPanic(st, fr, "syscall/js: call of Value.Bool on non-boolean", mkStr("js: Bool on non-boolean"), true)
		return
	}
	ex.ret(fr, dst, t)
}

func iJSString(ex *Exec, st *State, fr *Frame, dst ssa.Value, args []Value) {
	iv := ex.jsPayload(st, args[0]).(IfaceV)
	s, ok := iv.v.(*StrV)
	if !ok {
		unsup("js String() of a non-string payload")
	}
	ex.ret(fr, dst, s)
}
