package main

import "time"

func runProperty(prop *PropSpec, tier string, seed int, verbose int, only string, t0 time.Time) int { return 2 }
func cmdReplay(args []string) int                                                                 { return 2 }
