package main

import (
	"bytes"
	"crypto/sha1"
	"encoding/json"
	"fmt"
	"os"
	"os/exec"
	"path/filepath"
	"regexp"
	"sort"
	"strconv"
	"strings"
	"time"

	"golang.org/x/tools/go/ssa"
)

// ------------------------------------------------------------------ known findings

type KnownFinding struct {
	Kind    string // finding | fixed
	Prop    string
	Harness string
	Assert  string
	Where   map[string]string
	Desc    string
	Raw     string
}

var kfRe = regexp.MustCompile(`^(finding|fixed):\s+property=(\S+)\s+(.*)$`)

func loadKnownFindings() []KnownFinding {
	b, err := os.ReadFile(filepath.Join(verifDir, "KNOWN_FINDINGS"))
	if err != nil {
		return nil
	}
	var out []KnownFinding
	for _, line := range strings.Split(string(b), "\n") {
		line = strings.TrimSpace(line)
		if line == "" || strings.HasPrefix(line, "#") {
			continue
		}
		m := kfRe.FindStringSubmatch(line)
		if m == nil {
			continue
		}
		k := KnownFinding{Kind: m[1], Prop: m[2], Raw: line, Where: map[string]string{}}
		rest := m[3]
		if i := strings.Index(rest, " :: "); i >= 0 {
			k.Desc = rest[i+4:]
			rest = rest[:i]
		}
		// harness=H assert="..." where=a=1,b=2
		if mm := regexp.MustCompile(`harness=(\S+)`).FindStringSubmatch(rest); mm != nil {
			k.Harness = mm[1]
		}
		if mm := regexp.MustCompile(`assert="([^"]*)"`).FindStringSubmatch(rest); mm != nil {
			k.Assert = mm[1]
		}
		if mm := regexp.MustCompile(`where=(\S+)`).FindStringSubmatch(rest); mm != nil {
			for _, kv := range strings.Split(mm[1], ",") {
				if i := strings.Index(kv, "="); i > 0 {
					k.Where[kv[:i]] = kv[i+1:]
				}
			}
		}
		out = append(out, k)
	}
	return out
}

// violNoteKey: concrete notes (e.g. the program or terminal under test) identify
// the failing case; witness values of symbolic notes do not.
func violNoteKey(v *Violation) string {
	out := ""
	if v.Kind == "blocked" {
		return "" // the blocked sites in the message identify a deadlock
	}
	for _, n := range v.Notes {
		if n.Key == "violated-earlier" || strings.Contains(n.Val, "(witness") {
			continue
		}
		out += "|" + n.Key + "=" + n.Val
	}
	return out
}

func violMsgText(v *Violation) string {
	// strip "file:line: " prefix
	msg := v.Msg
	if v.Kind == "assert" {
		if i := strings.Index(msg, ": "); i >= 0 {
			msg = msg[i+2:]
		}
	}
	return msg
}

func (k *KnownFinding) matches(prop string, v *Violation) bool {
	if k.Kind != "finding" || k.Prop != prop {
		return false
	}
	if k.Harness != "" && k.Harness != v.Harness {
		return false
	}
	if k.Assert != "" && !strings.Contains(violMsgText(v), k.Assert) {
		return false
	}
	for name, want := range k.Where {
		if strings.HasPrefix(name, "choice.") {
			found := false
			for _, c := range v.Choices {
				if c == name[7:]+"="+want {
					found = true
				}
			}
			if !found {
				return false
			}
			continue
		}
		if strings.HasPrefix(name, "note.") {
			found := false
			for _, n := range v.Notes {
				if n.Key == name[5:] && strings.Trim(n.Val, "\"") == want {
					found = true
				}
			}
			if !found {
				return false
			}
			continue
		}
		got, ok := v.Inputs[name]
		if !ok {
			return false
		}
		w, err := strconv.ParseInt(want, 0, 64)
		if err != nil || uint64(w) != got {
			return false
		}
	}
	return true
}

// ------------------------------------------------------------------ replay

type ReplayCase struct {
	Harness string            `json:"harness"`
	Inputs  map[string]string `json:"inputs"`
	Params  map[string]int    `json:"params"`
	Pkg     string            `json:"pkg"`
	Expect  string            `json:"expect"` // what the engine saw: violation message or "pass"
	Kind    string            `json:"kind"`
	GOOS    string            `json:"goos,omitempty"`
}

type ReplayFile struct {
	Property string       `json:"property"`
	Cases    []ReplayCase `json:"cases"`
	Build    *BuildReplay `json:"build,omitempty"` // replay = "does /repo build for this platform"
}

type BuildReplay struct {
	GOOS   string `json:"goos"`
	GOARCH string `json:"goarch"`
}

func writeBuildReplay(prop, goos, goarch string, errs []string) (string, error) {
	dir := filepath.Join(verifDir, "replays", prop, "build-"+goos+"-"+goarch)
	if err := os.MkdirAll(dir, 0o755); err != nil {
		return "", err
	}
	rf := ReplayFile{Property: prop, Build: &BuildReplay{goos, goarch}}
	b, _ := json.MarshalIndent(rf, "", " ")
	if err := os.WriteFile(filepath.Join(dir, "inputs.json"), b, 0o644); err != nil {
		return "", err
	}
	os.WriteFile(filepath.Join(dir, "cmd.txt"), []byte(fmt.Sprintf("cd /repo && GOOS=%s GOARCH=%s go build ./...\n", goos, goarch)), 0o644)
	os.WriteFile(filepath.Join(dir, "type-errors.txt"), []byte(strings.Join(errs, "\n")+"\n"), 0o644)
	return dir, nil
}

func runBuildReplay(dir string, br *BuildReplay) *ReplayOutcome {
	out := &ReplayOutcome{Results: map[int]string{}, Failed: map[int][]string{}}
	cmd := exec.Command("go", "build", ".")
	cmd.Dir = repoDir
	cmd.Env = goEnv("GOOS="+br.GOOS, "GOARCH="+br.GOARCH)
	b, err := cmd.CombinedOutput()
	out.Output = string(b)
	if err != nil {
		out.Results[0] = "build-failed"
		out.Err = err.Error()
	} else {
		out.Results[0] = "pass"
	}
	os.WriteFile(filepath.Join(dir, "output.txt"), b, 0o644)
	return out
}

func harnessNames(P *Program, pkgShort string) []string {
	pkg := P.pkgs[pkgPathOf(pkgShort)]
	var names []string
	if pkg == nil {
		return nil
	}
	re := regexp.MustCompile(`^H\d\d_\w+$`)
	for name, m := range pkg.Members {
		if _, ok := m.(*ssa.Function); ok && re.MatchString(name) {
			names = append(names, name)
		}
	}
	sort.Strings(names)
	return names
}

func harnessNamesFromSource(pkgShort string, js bool) []string {
	dir := filepath.Join(verifDir, "harness", pkgShort)
	ents, _ := os.ReadDir(dir)
	re := regexp.MustCompile(`(?m)^func (H\d\d[a-z]?_\w+)\(\)`)
	var names []string
	for _, e := range ents {
		if !strings.HasSuffix(e.Name(), ".go") {
			continue
		}
		b, _ := os.ReadFile(filepath.Join(dir, e.Name()))
		first := string(b)
		if i := strings.Index(first, "\n"); i >= 0 {
			first = first[:i]
		}
		if strings.Contains(first, "!js") && js {
			continue
		}
		if strings.Contains(first, "&& js") && !js {
			continue
		}
		for _, m := range re.FindAllStringSubmatch(string(b), -1) {
			names = append(names, m[1])
		}
	}
	sort.Strings(names)
	return names
}

// writeReplay materialises a replay directory and returns its path.
func writeReplay(prop string, pkgShort string, cases []ReplayCase, tag string) (string, error) {
	h := sha1.New()
	enc, _ := json.Marshal(cases)
	h.Write(enc)
	digest := fmt.Sprintf("%s-%x", tag, h.Sum(nil)[:6])
	dir := filepath.Join(verifDir, "replays", prop, digest)
	if err := os.MkdirAll(dir, 0o755); err != nil {
		return "", err
	}
	rf := ReplayFile{Property: prop, Cases: cases}
	b, _ := json.MarshalIndent(rf, "", " ")
	if err := os.WriteFile(filepath.Join(dir, "inputs.json"), b, 0o644); err != nil {
		return "", err
	}
	// test driver
	var tb strings.Builder
	fmt.Fprintf(&tb, "//go:build verif\n\npackage %s\n\nimport \"testing\"\n\n", pkgShort)
	fmt.Fprintf(&tb, "var vsymHarnesses = map[string]func(){\n")
	isJSReplay := len(cases) > 0 && cases[0].GOOS == "js"
	for _, n := range harnessNamesFromSource(pkgShort, isJSReplay) {
		fmt.Fprintf(&tb, "\t%q: %s,\n", n, n)
	}
	fmt.Fprintf(&tb, "}\n\nfunc TestZZReplay(t *testing.T) {\n\tfor i, c := range vsymLoadCases() {\n\t\tfn := vsymHarnesses[c.Harness]\n\t\tif fn == nil {\n\t\t\tt.Fatalf(\"unknown harness %%s\", c.Harness)\n\t\t}\n\t\tvsymRunCase(i, c, fn)\n\t}\n}\n")
	if err := os.WriteFile(filepath.Join(dir, "zz_verif_replay_test.go"), []byte(tb.String()), 0o644); err != nil {
		return "", err
	}
	native, err := os.ReadFile(filepath.Join(verifDir, "harness", "vsym_native.go.txt"))
	if err != nil {
		return "", err
	}
	ov := map[string]string{}
	rdir := harnessDirs[pkgShort]
	for pkg, d := range harnessDirs {
		hdir := filepath.Join(verifDir, "harness", pkg)
		ents, err := os.ReadDir(hdir)
		if err != nil {
			continue
		}
		n := 0
		for _, e := range ents {
			if strings.HasSuffix(e.Name(), ".go") {
				ov[filepath.Join(repoDir, d, "zz_verif_"+e.Name())] = filepath.Join(hdir, e.Name())
				n++
			}
		}
		if n > 0 {
			nf := filepath.Join(dir, "zz_verif_vsym_"+pkg+".go")
			if err := os.WriteFile(nf, []byte(strings.Replace(string(native), "package PKG", "package "+pkg, 1)), 0o644); err != nil {
				return "", err
			}
			ov[filepath.Join(repoDir, d, "zz_verif_vsym.go")] = nf
		}
	}
	ov[filepath.Join(repoDir, rdir, "zz_verif_replay_test.go")] = filepath.Join(dir, "zz_verif_replay_test.go")
	ob, _ := json.MarshalIndent(map[string]interface{}{"Replace": ov}, "", " ")
	if err := os.WriteFile(filepath.Join(dir, "overlay.json"), ob, 0o644); err != nil {
		return "", err
	}
	pkgArg := "."
	if rdir != "" {
		pkgArg = "./" + rdir
	}
	cmd := fmt.Sprintf("cd /repo && VSYM_INPUTS=%s/inputs.json TERM=xterm go test -tags verif -vet=off -count=1 -timeout 300s -overlay %s/overlay.json -run '^TestZZReplay$' -v %s\n", dir, dir, pkgArg)
	os.WriteFile(filepath.Join(dir, "cmd.txt"), []byte(cmd), 0o644)
	return dir, nil
}

type ReplayOutcome struct {
	Results map[int]string // case index -> pass | assert-failed | panic | hang | assume-failed | cut | missing
	Failed  map[int][]string
	Output  string
	Err     string
}

func runReplay(dir string) *ReplayOutcome {
	out := &ReplayOutcome{Results: map[int]string{}, Failed: map[int][]string{}}
	b, err := os.ReadFile(filepath.Join(dir, "inputs.json"))
	if err != nil {
		out.Err = err.Error()
		return out
	}
	var rf ReplayFile
	if err := json.Unmarshal(b, &rf); err != nil {
		out.Err = err.Error()
		return out
	}
	if rf.Build != nil {
		return runBuildReplay(dir, rf.Build)
	}
	pkgShort := "tcell"
	if len(rf.Cases) > 0 && rf.Cases[0].Pkg != "" {
		pkgShort = rf.Cases[0].Pkg
	}
	rdir := harnessDirs[pkgShort]
	pkgArg := "."
	if rdir != "" {
		pkgArg = "./" + rdir
	}
	// the overlay must reflect the current harness files (paths are absolute and stable)
	args := []string{"test", "-tags", "verif", "-vet=off", "-count=1", "-timeout", "300s",
		"-overlay", filepath.Join(dir, "overlay.json"), "-run", "^TestZZReplay$", "-v"}
	for _, c := range rf.Cases {
		if c.Kind == "race" {
			args = append(args, "-race")
			break
		}
	}
	isJS := len(rf.Cases) > 0 && rf.Cases[0].GOOS == "js"
	if isJS {
		goroot, _ := exec.Command("go", "env", "GOROOT").Output()
		args = append(args, "-exec", filepath.Join(strings.TrimSpace(string(goroot)), "misc", "wasm", "go_js_wasm_exec"))
	}
	args = append(args, pkgArg)
	cmd := exec.Command("go", args...)
	cmd.Dir = repoDir
	env := goEnv("VSYM_INPUTS="+filepath.Join(dir, "inputs.json"), "TERM=xterm")
	if isJS {
		env = append(env, "GOOS=js", "GOARCH=wasm")
	}
	var clean []string
	for _, e := range env {
		if strings.HasPrefix(e, "COLORTERM=") || strings.HasPrefix(e, "TCELL_") || strings.HasPrefix(e, "LC_") ||
			strings.HasPrefix(e, "LANG=") || strings.HasPrefix(e, "LINES=") || strings.HasPrefix(e, "COLUMNS=") ||
			strings.HasPrefix(e, "RUNEWIDTH_EASTASIAN=") || strings.HasPrefix(e, "TERM=") {
			if !strings.HasPrefix(e, "TERM=xterm") {
				continue
			}
		}
		clean = append(clean, e)
	}
	cmd.Env = clean
	var buf bytes.Buffer
	cmd.Stdout = &buf
	cmd.Stderr = &buf
	err = cmd.Run()
	out.Output = buf.String()
	if err != nil {
		out.Err = err.Error()
	}
	reRes := regexp.MustCompile(`(?m)^VSYM-REPLAY-RESULT (\d+) (\S+)`)
	for _, m := range reRes.FindAllStringSubmatch(out.Output, -1) {
		i, _ := strconv.Atoi(m[1])
		out.Results[i] = m[2]
	}
	reF := regexp.MustCompile(`(?m)^VSYM-ASSERT-FAILED (\d+) (.*)$`)
	for _, m := range reF.FindAllStringSubmatch(out.Output, -1) {
		i, _ := strconv.Atoi(m[1])
		out.Failed[i] = append(out.Failed[i], m[2])
	}
	reM := regexp.MustCompile(`(?m)^VSYM-REPLAY-MISSING-INPUT (\d+) (.*)$`)
	for _, m := range reM.FindAllStringSubmatch(out.Output, -1) {
		i, _ := strconv.Atoi(m[1])
		out.Failed[i] = append(out.Failed[i], "missing input "+m[2])
	}
	os.WriteFile(filepath.Join(dir, "output.txt"), buf.Bytes(), 0o644)
	return out
}

func cmdReplay(args []string) int {
	if len(args) < 1 {
		usage()
	}
	dir := args[0]
	o := runReplay(dir)
	fmt.Print(o.Output)
	bad := false
	for i, r := range o.Results {
		fmt.Printf("case %d: %s %v\n", i, r, o.Failed[i])
		if r != "pass" && r != "cut" {
			bad = true
		}
	}
	if o.Results[0] == "build-failed" {
		return 1
	}
	if len(o.Results) == 0 {
		fmt.Println("no replay result (build failure?):", o.Err)
		return 2
	}
	if bad {
		return 1
	}
	return 0
}

func toReplayCase(spec *HarnessSpec, params map[string]int, inputs map[string]uint64, expect, kind string) ReplayCase {
	in := make(map[string]string, len(inputs))
	for k, v := range inputs {
		in[k] = strconv.FormatUint(v, 10)
	}
	return ReplayCase{Harness: spec.Name, Inputs: in, Params: params, Pkg: spec.Pkg, Expect: expect, Kind: kind, GOOS: spec.GOOS}
}

// ------------------------------------------------------------------ the check driver

type Evidence struct {
	PropertyID  string                 `json:"property_id"`
	Tier        string                 `json:"tier"`
	Seed        int                    `json:"seed"`
	Level       string                 `json:"level"`
	Coverage    map[string]interface{} `json:"coverage"`
	Assumptions []string               `json:"assumptions"`
	WallS       float64                `json:"wall_s"`
	Violations  int                    `json:"violations"`
}

func runProperty(prop *PropSpec, tier string, seed int, verbose int, only string, t0 time.Time) int {
	id := prop.ID
	exit := 0
	var inconAll []string
	lockLocations := 0
	buildViolations := 0
	// group harnesses by platform
	byOS := map[string][]*HarnessSpec{}
	for i := range prop.Harnesses {
		h := &prop.Harnesses[i]
		if only != "" && h.Name != only {
			continue
		}
		if h.Tiers == "thorough" && tier != "thorough" {
			continue
		}
		byOS[h.GOOS] = append(byOS[h.GOOS], h)
	}
	var allResults []*JobResult
	var allJobs []Job
	loadSecs := 0.0
	totalFuncs, totalInstr := 0, 0
	var Pmain *Program
	for goos, specs := range byOS {
		arch := ""
		if goos == "js" {
			arch = "wasm"
		}
		lr, err := loadProgram(goos, arch, loadPatterns)
		if err != nil {
			fmt.Fprintln(os.Stderr, "load:", err)
			return 2
		}
		loadSecs += lr.LoadSecs
		if len(lr.Errors) > 0 {
			fmt.Fprintf(os.Stderr, "type errors loading /repo (GOOS=%q):\n%s\n", goos, strings.Join(lr.Errors, "\n"))
			if goos != "" && prop.BuildIsProperty {
				// "the backend compiles against the common interface" is part of the property:
				// confirm with the real compiler, then report
				dir, werr := writeBuildReplay(id, goos, arch, lr.Errors)
				if werr == nil {
					if o := runBuildReplay(dir, &BuildReplay{goos, arch}); o.Results[0] == "build-failed" {
						buildViolations++
						fmt.Printf("VIOLATION property=%s replay=%s\n  GOOS=%s GOARCH=%s does not build: %s\n", id, dir, goos, arch, lr.Errors[0])
						exit = 1
						continue
					}
				}
			}
			inconAll = append(inconAll, "load errors for GOOS="+goos+": "+lr.Errors[0])
			continue
		}
		theProgram = lr.P
		Pmain = lr.P
		for _, fn := range ssaAllFunctions(lr.P) {
			totalFuncs++
			for _, b := range fn.Blocks {
				totalInstr += len(b.Instrs)
			}
		}
		ex, err := newExec(lr.P, "z3-new", 30000)
		if err != nil {
			fmt.Fprintln(os.Stderr, err)
			return 2
		}
		rootSet := map[string]bool{}
		var roots []string
		for _, h := range specs {
			pp := pkgPathOf(h.Pkg)
			if !rootSet[pp] {
				rootSet[pp] = true
				roots = append(roots, pp)
			}
		}
		sort.Strings(roots)
		init, ilog := ex.buildInitialHeap(roots)
		ex.solver.Close()
		for _, l := range ilog {
			if !strings.HasPrefix(l, "lenient:") {
				inconAll = append(inconAll, "init: "+l)
			}
		}
		var jobs []Job
		for _, h := range specs {
			params := tierParams(h, tier)
			combos := []map[string]int{{}}
			for _, d := range h.Split {
				n := d.N[tier]
				if n == 0 {
					n = d.N["quick"]
				}
				if n <= 1 {
					continue
				}
				var nc []map[string]int
				for _, c := range combos {
					for i := 0; i < n; i++ {
						m := map[string]int{}
						for k, v := range c {
							m[k] = v
						}
						m[d.Name] = i
						nc = append(nc, m)
					}
				}
				combos = nc
			}
			for _, c := range combos {
				p := map[string]int{}
				for k, v := range params {
					p[k] = v
				}
				label := h.Name
				var ks []string
				for k := range c {
					ks = append(ks, k)
				}
				sort.Strings(ks)
				for _, k := range ks {
					p["choice:"+k] = c[k]
					label += fmt.Sprintf("[%s=%d]", k, c[k])
				}
				jobs = append(jobs, Job{Spec: h, Params: p, Label: label})
			}
		}
		nw := 16
		if s := os.Getenv("VERIF_WORKERS"); s != "" {
			nw, _ = strconv.Atoi(s)
		}
		results := runWorkers(lr.P, init, jobs, verbose, nw)
		allResults = append(allResults, results...)
		allJobs = append(allJobs, jobs...)
	}

	// ---- aggregate
	agg := struct {
		paths, branches, forks, queries, sat, unsat, unknown, errors int
		solverS                                                      float64
		instrs                                                       int64
		byEnd                                                        map[string]int
		funcs                                                        map[string]int
	}{byEnd: map[string]int{}, funcs: map[string]int{}}
	assertAgg := map[string]*AssertSite{}
	var samples []interface{}
	var viols []*Violation
	violJob := map[*Violation]Job{}
	var passCases []ReplayCase
	perHarness := map[string]map[string]interface{}{}
	for i, r := range allResults {
		if r == nil {
			continue
		}
		agg.paths += r.Paths
		agg.branches += r.Branches
		agg.forks += r.Forks
		agg.instrs += r.Instrs
		agg.queries += r.Solver.Queries
		agg.sat += r.Solver.Sat
		agg.unsat += r.Solver.Unsat
		agg.unknown += r.Solver.Unknown
		agg.errors += r.Solver.Errors
		agg.solverS += r.Solver.Seconds
		for k, v := range r.PathsByEnd {
			agg.byEnd[k] += v
		}
		for k, v := range r.Functions {
			agg.funcs[k] += v
		}
		for k, a := range r.Asserts {
			key := r.Harness + " " + k
			t := assertAgg[key]
			if t == nil {
				t = &AssertSite{Msg: a.Msg}
				assertAgg[key] = t
			}
			t.Reached += a.Reached
			t.Proved += a.Proved
			t.Trivial += a.Trivial
			t.Failed += a.Failed
		}
		for _, s := range r.Incon {
			inconAll = append(inconAll, r.Label+": "+s)
		}
		for _, v := range r.Violations {
			viols = append(viols, v)
			violJob[v] = allJobs[i]
		}
		ph := perHarness[r.Harness]
		if ph == nil {
			ph = map[string]interface{}{"paths": 0, "queries": 0, "solver_s": 0.0, "wall_s": 0.0, "jobs": 0}
			perHarness[r.Harness] = ph
		}
		ph["paths"] = ph["paths"].(int) + r.Paths
		ph["queries"] = ph["queries"].(int) + r.Solver.Queries
		ph["solver_s"] = ph["solver_s"].(float64) + r.Solver.Seconds
		ph["wall_s"] = ph["wall_s"].(float64) + r.Seconds
		ph["jobs"] = ph["jobs"].(int) + 1
		ph["params"] = r.Params
		for j, s := range r.Samples {
			if j >= 2 || len(samples) >= 24 {
				break
			}
			samples = append(samples, map[string]interface{}{"harness": r.Label, "end": s.End, "choices": s.Choices, "witness_inputs": s.Inputs, "notes": s.Notes, "path_condition_conjuncts": s.PCLen})
		}
		for j, pm := range r.PassModels {
			if j >= 3 {
				break
			}
			passCases = append(passCases, toReplayCase(allJobs[i].Spec, r.Params, pm.Inputs, "pass", "pass"))
		}
	}

	// lock discipline (C10): locations written after Init and accessed without the screen lock
	if prop.LockSet != "" {
		acc := map[string]*AccessSummary{}
		var lockJob Job
		for i, r := range allResults {
			if r == nil || len(r.Access) == 0 {
				continue
			}
			lockJob = allJobs[i]
			for k, a := range r.Access {
				if t := acc[k]; t == nil {
					cp := *a
					cp.Threads, cp.Sites, cp.UnlockedAt, cp.Writers = map[string]bool{}, map[string]bool{}, map[string]bool{}, map[string]bool{}
					mergeAccessSummary(&cp, a)
					cp.Reads, cp.Writes, cp.Unlocked, cp.UnlockedW = a.Reads, a.Writes, a.Unlocked, a.UnlockedW
					acc[k] = &cp
				} else {
					mergeAccessSummary(t, a)
				}
			}
		}
		lockLocations = len(acc)
		idxOf := func(s string) (int, string) {
			// "12:Beep (writeString)"  (note values are quoted)
			s = strings.Trim(strings.Replace(s, "\"", "", -1), " ")
			n := 0
			i := 0
			for i < len(s) && s[i] >= '0' && s[i] <= '9' {
				n = n*10 + int(s[i]-'0')
				i++
			}
			name := s
			if i < len(s) && s[i] == ':' {
				name = s[i+1:]
			}
			if j := strings.Index(name, " ("); j >= 0 {
				name = name[:j]
			}
			return n, name
		}
		var locs []string
		for k := range acc {
			locs = append(locs, k)
		}
		sort.Strings(locs)
		type cand struct {
			ui, wi int
			wn     string
			locs   []string
			best   int
		}
		cands := map[string]*cand{}
		for _, loc := range locs {
			a := acc[loc]
			if a.Writes == 0 || a.Unlocked == 0 || confined(a) {
				continue
			}
			var ws, us []string
			for w := range a.Writers {
				ws = append(ws, w)
			}
			for u := range a.UnlockedAt {
				us = append(us, u)
			}
			sort.Strings(ws)
			sort.Strings(us)
			for _, u := range us {
				ui, un := idxOf(u)
				wi, wn := idxOf(ws[0])
				c := cands[un]
				if c == nil {
					c = &cand{ui: ui, wi: wi, wn: wn, best: 99}
					cands[un] = c
				}
				for _, w := range ws { // racing partner: a different method, preferably one that always touches the state
					i2, n2 := idxOf(w)
					if n2 == un {
						continue
					}
					rank := 50
					for r, pref := range []string{"window-resize+Show", "SetContent", "RegisterRuneFallback", "Fill", "SetStyle", "ShowCursor", "Sync", "Show"} {
						if n2 == pref {
							rank = r
						}
					}
					if rank < c.best {
						c.best, c.wi, c.wn = rank, i2, n2
					}
				}
				dup := false
				for _, l := range c.locs {
					if l == loc {
						dup = true
					}
				}
				if !dup {
					c.locs = append(c.locs, loc)
				}
			}
		}
		var uns []string
		for un := range cands {
			uns = append(uns, un)
		}
		sort.Strings(uns)
		for _, un := range uns {
			c := cands[un]
			v := &Violation{Harness: prop.LockSet, Kind: "race",
				Msg:     fmt.Sprintf("%s accesses shared screen state without the screen lock", un),
				Inputs:  map[string]uint64{},
				Notes:   []Note{{"unlocked method", un}},
				Choices: []string{fmt.Sprintf("state: %s", strings.Join(c.locs, ",")), fmt.Sprintf("racing writer: %s", c.wn)}}
			viols = append(viols, v)
			rj := lockJob
			sp := *lockJob.Spec
			sp.Name = prop.LockSet
			rj.Spec = &sp
			rj.Params = map[string]int{"a": c.wi, "b": c.ui}
			violJob[v] = rj
		}
	}

	// vacuity: every harness must have at least one path reaching an assertion or ending "done"
	for _, r := range allResults {
		if r == nil {
			continue
		}
		reached := 0
		for _, a := range r.Asserts {
			reached += a.Reached
		}
		if r.Paths == r.PathsByEnd["cut"] && r.Paths > 0 {
			continue // empty work split
		}
		if r.PathsByEnd["done"] == 0 && len(r.Violations) == 0 && len(r.Incon) == 0 {
			inconAll = append(inconAll, r.Label+": vacuous harness (no path completed)")
		}
		if reached == 0 && len(r.Violations) == 0 && len(r.Incon) == 0 && !strings.Contains(r.Harness, "_nopanic") {
			// harnesses that only check panics have no assert sites; they are marked PanicIsBug
			sp := findSpec(prop, r.Harness)
			if sp == nil || !(sp.PanicIsBug || sp.BlockedIsBug) {
				inconAll = append(inconAll, r.Label+": vacuous harness (no assertion reached)")
			}
		}
	}

	// ---- replay violations (deduplicated per harness+message; at most 2 models per site)
	known := loadKnownFindings()
	type vgroup struct {
		key   string
		viols []*Violation
	}
	groups := map[string]*vgroup{}
	var order []string
	for _, v := range viols {
		k := v.Harness + "|" + violMsgText(v) + violNoteKey(v)
		g := groups[k]
		if g == nil {
			g = &vgroup{key: k}
			groups[k] = g
			order = append(order, k)
		}
		g.viols = append(g.viols, v)
	}
	sort.Strings(order)
	violationsReported := 0
	knownReported := map[string]bool{}
	reproduced, notReproduced := 0, 0
	// at most maxGroups violation groups are replayed and reported (a broken table entry can
	// fail for every terminal description: hundreds of groups, seconds of go test each)
	maxGroups := 16
	if v, err := strconv.Atoi(os.Getenv("VERIF_MAX_GROUPS")); err == nil && v > 0 {
		maxGroups = v
	}
	skippedGroups := 0
	for gi, k := range order {
		if gi >= maxGroups && violationsReported > 0 {
			skippedGroups++
			continue
		}
		g := groups[k]
		// choose up to 3 representatives: prefer ones not matched by a known finding
		var reps []*Violation
		for _, v := range g.viols {
			matched := false
			for i := range known {
				if known[i].matches(id, v) {
					matched = true
				}
			}
			if !matched {
				reps = append(reps, v)
			}
			if len(reps) >= 2 && violJob[v].Spec.Abstracts == "" {
				break
			}
			if len(reps) >= 12 {
				break
			}
		}
		abstracted := len(reps) > 0 && violJob[reps[0]].Spec.Abstracts != ""
		if abstracted {
			// most diverse first: distinct choice vectors
			seen := map[string]bool{}
			var div, rest []*Violation
			for _, v := range reps {
				c := fmt.Sprint(v.Choices)
				if seen[c] {
					rest = append(rest, v)
				} else {
					seen[c] = true
					div = append(div, v)
				}
			}
			reps = append(div, rest...)
		}
		groupReproduced := 0
		var spurious []string
		if len(reps) == 0 {
			reps = g.viols[:1]
		}
		for _, v := range reps {
			job := violJob[v]
			rc := toReplayCase(job.Spec, job.Params, v.Inputs, v.Msg, v.Kind)
			dir, err := writeReplay(id, job.Spec.Pkg, []ReplayCase{rc}, "viol")
			if err != nil {
				inconAll = append(inconAll, "cannot write replay: "+err.Error())
				continue
			}
			o := runReplay(dir)
			res := o.Results[0]
			ok := false
			switch v.Kind {
			case "assert":
				ok = res == "assert-failed"
			case "panic":
				ok = res == "panic"
			case "blocked":
				ok = res == "hang" || strings.Contains(o.Output, "all goroutines are asleep - deadlock")
			case "race":
				ok = strings.Contains(o.Output, "WARNING: DATA RACE")
			}
			if !ok {
				if abstracted && res == "pass" {
					spurious = append(spurious, dir)
					continue
				}
				notReproduced++
				inconAll = append(inconAll, fmt.Sprintf("counterexample for %s did not reproduce natively (replay result %q; see %s/output.txt): encoding or stub defect", k, res, dir))
				continue
			}
			reproduced++
			groupReproduced++
			if abstracted && groupReproduced > 2 {
				break
			}
			var kf *KnownFinding
			for i := range known {
				if known[i].matches(id, v) {
					kf = &known[i]
					break
				}
			}
			if kf != nil {
				if !knownReported[kf.Raw] {
					knownReported[kf.Raw] = true
					fmt.Printf("KNOWN-FINDING: property=%s %s (harness %s: %s; replay=%s)\n", id, kf.Desc, v.Harness, violMsgText(v), dir)
				}
				continue
			}
			violationsReported++
			fmt.Printf("VIOLATION property=%s replay=%s\n", id, dir)
			fmt.Printf("  harness %s: %s\n  inputs: %v\n  choices: %v\n  notes: %v\n", v.Harness, v.Msg, v.Inputs, v.Choices, v.Notes)
			exit = 1
		}
		if abstracted && groupReproduced == 0 && len(spurious) > 0 {
			notReproduced += len(spurious)
			inconAll = append(inconAll, fmt.Sprintf("%d counterexamples for %s exist under the abstraction of %s but none of those tried replays with the real function (e.g. %s): neither shown nor refuted", len(spurious), k, violJob[reps[0]].Spec.Abstracts, spurious[0]))
		}
	}

	if skippedGroups > 0 {
		fmt.Printf("(%d further violation groups were found by the solver and not replayed: limit %d, VERIF_MAX_GROUPS)\n", skippedGroups, maxGroups)
	}

	// ---- translator validation: replay sampled passing paths natively
	validated := 0
	if len(passCases) > 0 && os.Getenv("VERIF_NO_PASS_REPLAY") == "" {
		byPkg := map[string][]ReplayCase{}
		for _, c := range passCases {
			byPkg[c.Pkg] = append(byPkg[c.Pkg], c)
		}
		for pkg, cases := range byPkg {
			if len(cases) > 40 {
				cases = cases[:40]
			}
			dir, err := writeReplay(id, pkg, cases, "pass")
			if err != nil {
				inconAll = append(inconAll, "cannot write pass replay: "+err.Error())
				continue
			}
			o := runReplay(dir)
			for i := range cases {
				r := o.Results[i]
				if r == "pass" || r == "cut" {
					validated++
				} else if skipPassReplay(prop, cases[i].Harness) {
					// harness depends on engine-only facilities (threads, clock); not comparable natively
				} else {
					inconAll = append(inconAll, fmt.Sprintf("passing path of %s does not pass natively (result %q %v; see %s/output.txt): translator defect", cases[i].Harness, r, o.Failed[i], dir))
				}
			}
			if len(o.Results) == 0 {
				inconAll = append(inconAll, "pass replay produced no results: "+o.Err+" (see "+dir+"/output.txt)")
			}
		}
	}

	if len(inconAll) > 0 && exit == 0 {
		exit = 2
	}

	// ---- evidence
	var fnames []string
	for k := range agg.funcs {
		fnames = append(fnames, k)
	}
	sort.Strings(fnames)
	if len(samples) == 0 {
		samples = append(samples, map[string]interface{}{"note": "no path sample recorded"})
	}
	var assertList []map[string]interface{}
	var akeys []string
	for k := range assertAgg {
		akeys = append(akeys, k)
	}
	sort.Strings(akeys)
	for _, k := range akeys {
		a := assertAgg[k]
		assertList = append(assertList, map[string]interface{}{"site": k, "paths_reaching": a.Reached, "proved_unsat": a.Proved, "trivially_true": a.Trivial, "failed_sat": a.Failed})
	}
	var jobsDesc []string
	for _, j := range allJobs {
		jobsDesc = append(jobsDesc, j.Label)
	}
	if len(jobsDesc) > 40 {
		jobsDesc = append(jobsDesc[:40], fmt.Sprintf("... %d more", len(jobsDesc)-40))
	}
	cov := map[string]interface{}{
		"states":                        max1(agg.paths),
		"transitions":                   max1(agg.branches + agg.forks),
		"traces_validated_against_impl": validated,
		"samples":                       samples,
		"exhaustive":                    false,
		"explanation": "Bounded symbolic execution of the real code: Go SSA of /repo's working tree (loaded on this run) interpreted over SMT bit-vector/FP terms; " +
			"states = feasible symbolic paths explored (each stands for all inputs satisfying its path condition), transitions = symbolic branch decisions + forks; " +
			"every assertion is decided by an SMT query over the full path condition (unsat = holds for all inputs on that path).",
		"functions_encoded":                   fnames,
		"functions_encoded_count":             len(fnames),
		"ssa_instructions_executed":           agg.instrs,
		"program_functions_loaded":            totalFuncs,
		"bounds":                              prop.Bounds,
		"outside_the_claim":                   prop.Outside,
		"per_harness":                         perHarness,
		"jobs":                                jobsDesc,
		"paths_by_end":                        agg.byEnd,
		"queries_discharged":                  map[string]int{"total": agg.queries, "sat": agg.sat, "unsat": agg.unsat, "unknown": agg.unknown, "errors": agg.errors},
		"solver_seconds":                      round3(agg.solverS),
		"solver":                              "z3 5.1.0 (z3-new; one incremental process per worker). tools/selfcheck.sh re-runs a fixed set of harnesses under z3 4.8.12 and cvc5 1.0 and compares verdicts (last result: evidence/selfcheck.txt); branch feasibility over small explicit domains is decided by enumeration in the engine (byte / joint domains, audited against the solver with GOSYM_AUDIT=1)",
		"assertion_sites":                     assertList,
		"counterexamples_found":               len(viols),
		"counterexamples_replayed_reproduced": reproduced,
		"counterexamples_not_reproduced":      notReproduced,
		"known_findings_reported":             len(knownReported),
		"lockset_locations_tracked":           lockLocations,
		"inconclusive":                        inconAll,
		"load_seconds":                        round3(loadSecs),
	}
	_ = Pmain
	ev := Evidence{PropertyID: id, Tier: tier, Seed: seed, Level: "model_checking", Coverage: cov,
		Assumptions: prop.Assumptions, WallS: round3(time.Since(t0).Seconds()), Violations: violationsReported + buildViolations}
	eb, _ := json.MarshalIndent(ev, "", " ")
	os.MkdirAll(filepath.Join(verifDir, "evidence"), 0o755)
	if err := os.WriteFile(filepath.Join(verifDir, "evidence", id+".json"), eb, 0o644); err != nil {
		fmt.Fprintln(os.Stderr, "evidence:", err)
		return 2
	}
	fmt.Printf("%s %s: %d paths, %d assertion sites, %d queries (%d unsat, %d sat, %d unknown), solver %.1fs, %d traces validated natively, wall %.1fs\n",
		id, tier, agg.paths, len(assertAgg), agg.queries, agg.unsat, agg.sat, agg.unknown, agg.solverS, validated, time.Since(t0).Seconds())
	for _, s := range inconAll {
		fmt.Printf("INCONCLUSIVE %s: %s\n", id, s)
	}
	if exit == 0 {
		fmt.Printf("PASS property=%s tier=%s\n", id, tier)
	}
	return exit
}

func skipPassReplay(prop *PropSpec, harness string) bool {
	sp := findSpec(prop, harness)
	return sp != nil && strings.Contains(sp.Note, "no-native-pass-replay")
}

func findSpec(prop *PropSpec, name string) *HarnessSpec {
	for i := range prop.Harnesses {
		if prop.Harnesses[i].Name == name {
			return &prop.Harnesses[i]
		}
	}
	return nil
}

func max1(n int) int {
	if n < 1 {
		return 1
	}
	return n
}

func round3(f float64) float64 { return float64(int64(f*1000+0.5)) / 1000 }

func ssaAllFunctions(P *Program) []*ssa.Function {
	var out []*ssa.Function
	for _, p := range P.prog.AllPackages() {
		for _, m := range p.Members {
			if f, ok := m.(*ssa.Function); ok {
				out = append(out, f)
			}
		}
	}
	return out
}
