package main

import (
	"go/token"
	"fmt"
	"go/constant"
	"go/types"
	"os"
	"sort"
	"strings"
	"sync"
	"time"

	"golang.org/x/tools/go/ssa"
)

// SymPtr is a pointer with one symbolic array index on its path:
// base.path ++ [idx] ++ post, idx in [0,n).
type SymPtr struct {
	base Ptr
	idx  *Term // BV64
	n    int
	post string
}

func (p SymPtr) at(i int) Ptr {
	return Ptr{p.base.obj, pathAppend(p.base.path, i) + p.post}
}

type Program struct {
	prog     *ssa.Program
	pkgs     map[string]*ssa.Package
	globals  map[*ssa.Global]int
	gtypes   []*ssa.Global // index = object id
	fninfo   sync.Map
	initHeap Heap
	msets    *typeCache
}

type typeCache struct {
	mu sync.Mutex
}

func (p *Program) info(fn *ssa.Function) *FnInfo {
	if v, ok := p.fninfo.Load(fn); ok {
		return v.(*FnInfo)
	}
	fi := buildFnInfo(fn)
	p.fninfo.Store(fn, fi)
	return fi
}

type Exec struct {
	P      *Program
	solver *Solver
	cfg    *RunCfg
	work   []*State
	// statistics
	paths          int
	pathsByEnd     map[string]int
	branches       int
	forks          int
	instrs         int64
	fnEntered      map[string]int
	violations     []*Violation
	asserts        map[string]*AssertSite
	incon          []string // reasons the run is inconclusive
	samples        []PathSample
	deadline       time.Time
	domPrunes      int
	preemptBound int
	hbOn         bool
	hbRaces      map[string]*hbRace
	hbFnCache    map[*ssa.Function]bool
	jointDecisions int
	modelHits      int
	queriesBr      int
	curHarness     string
	params         map[string]int
	passModels     []PassModel
	accessAll      map[string]*AccessSummary
	blockSites     map[string]int
	qcache         map[string]qres
	qcacheHits     int
	ifConverted    int
	forkSites      map[string]int
	lenient        bool
	initDone       map[string]bool
	initLog        *[]string
}

type AccessSummary struct {
	Loc        string
	Reads      int
	Writes     int
	Unlocked   int
	UnlockedW  int
	Threads    map[string]bool
	Sites      map[string]bool
	UnlockedAt map[string]bool
	Writers    map[string]bool
}

type PassModel struct {
	Inputs map[string]uint64
	Notes  []Note
}

type AssertSite struct {
	Msg     string
	Reached int
	Proved  int
	Trivial int
	Failed  int
}

type Violation struct {
	Harness string
	Msg     string
	Inputs  map[string]uint64
	Kinds   map[string]string
	Notes   []Note
	Kind    string // assert | panic | blocked
	Choices []string
}

type PathSample struct {
	End     string
	Choices []string
	Inputs  map[string]uint64
	Notes   []Note
	PCLen   int
}

type RunCfg struct {
	MaxPaths   int
	MaxSeconds float64
	Unwind     int
	MaxDepth   int
	PanicIsBug bool
	Verbose    int
	StopOnViol bool
	SampleN    int
}

// ------------------------------------------------------------------ operand fetch

func (ex *Exec) get(st *State, fr *Frame, v ssa.Value) Value {
	switch x := v.(type) {
	case *ssa.Const:
		return constVal(x)
	case *ssa.Global:
		id, ok := ex.P.globals[x]
		if !ok {
			unsup("unknown global %s", x)
		}
		return Ptr{obj: id}
	case *ssa.Function:
		return &FuncV{fn: x}
	case *ssa.Builtin:
		return &FuncV{bi: x}
	}
	idx, ok := fr.info.index[v]
	if !ok {
		panic(fmt.Sprintf("no register for %T %s in %s", v, v.Name(), fr.fn))
	}
	r := fr.regs[idx]
	if r == nil {
		panic(fmt.Sprintf("read of unset register %s in %s", v.Name(), fr.fn))
	}
	return r
}

func (ex *Exec) set(fr *Frame, v ssa.Value, val Value) {
	fr.regs[fr.info.index[v]] = val
}

func constVal(c *ssa.Const) Value {
	t := c.Type()
	if c.Value == nil {
		return zeroVal(t)
	}
	switch u := t.Underlying().(type) {
	case *types.Basic:
		switch {
		case u.Info()&types.IsBoolean != 0:
			return mkBool(constant.BoolVal(c.Value))
		case u.Info()&types.IsString != 0:
			return mkStr(constant.StringVal(c.Value))
		case u.Info()&types.IsInteger != 0:
			n, signed, _ := intBits(u.Kind())
			if signed {
				iv, _ := constant.Int64Val(constant.ToInt(c.Value))
				return mkBV(n, uint64(iv))
			}
			uv, _ := constant.Uint64Val(constant.ToInt(c.Value))
			return mkBV(n, uv)
		case u.Info()&types.IsFloat != 0:
			f, _ := constant.Float64Val(c.Value)
			if u.Kind() == types.Float32 {
				f = float64(float32(f))
			}
			return mkFP(f)
		}
	case *types.Interface, *types.Pointer, *types.Slice, *types.Map, *types.Chan, *types.Signature:
		return zeroVal(t)
	}
	unsup("const of type %v", t)
	return nil
}

// ------------------------------------------------------------------ path ends

func (ex *Exec) endPath(st *State, status, detail string) {
	st.status = status
	st.detail = detail
}

func inputsOf(st *State, m Model) (map[string]uint64, map[string]string) {
	vals := make(map[string]uint64, len(st.inputs))
	kinds := make(map[string]string, len(st.inputs))
	for _, in := range st.inputs {
		if in.T.op == OpConst {
			vals[in.Name] = in.T.val
		} else {
			v, _ := evalTerm(in.T, m)
			vals[in.Name] = v
		}
		kinds[in.Name] = in.Kind
	}
	return vals, kinds
}

// ------------------------------------------------------------------ main loop

// runState executes st until it finishes (status set).  Forked siblings are
// pushed on ex.work.
func (ex *Exec) runState(st *State) {
	defer func() {
		if r := recover(); r != nil {
			if u, ok := r.(unsupported); ok {
				ex.endPath(st, "unsupported", u.msg+" @ "+ex.where(st))
				return
			}
			if ex.cfg.Verbose > 0 {
				fmt.Fprintf(os.Stderr, "ENGINE PANIC at %s\n", ex.where(st))
				if fr := st.top(); fr != nil && fr.ip < len(fr.block.Instrs) {
					fmt.Fprintf(os.Stderr, "  instr: %s\n", fr.block.Instrs[fr.ip])
				}
				panic(r)
			}
			ex.endPath(st, "engine-error", fmt.Sprintf("%v @ %s", r, ex.where(st)))
		}
	}()
	for st.status == "" {
		st.steps++
		if st.steps > maxPathSteps {
			// a concrete loop that never ends (e.g. a draw loop that stopped advancing)
			ex.endPath(st, "diverged", fmt.Sprintf("more than %d instructions on one path @ %s", maxPathSteps, ex.where(st)))
			return
		}
		if ex.instrs&0x3fff == 0 && time.Now().After(ex.deadline) {
			ex.endPath(st, "timeout", "deadline")
			return
		}
		th := st.thread()
		if len(th.frames) == 0 {
			th.done = true
			if st.cur == 0 {
				ex.endPath(st, "done", "")
				return
			}
			ex.schedule(st)
			continue
		}
		fr := th.frames[len(th.frames)-1]
		if fr.ip >= len(fr.block.Instrs) {
			panic("fell off block end in " + fr.fn.String())
		}
		in := fr.block.Instrs[fr.ip]
		if ex.preemptBound > 0 && len(st.threads) > 1 && ex.maybePreempt(st, th, fr, in) {
			continue
		}
		th.noPre = nil
		ex.instrs++
		ex.step(st, fr, in)
	}
}

// isSyncPoint: instructions at which a forced context switch is considered -
// channel operations, close, and the sync primitives the engine models.  (For
// programs whose shared accesses are lock-protected, switching only at these
// points covers every interleaving up to the preemption bound - the CHESS argument.)
func isSyncPoint(in ssa.Instruction) bool {
	switch x := in.(type) {
	case *ssa.Send, *ssa.Select:
		return true
	case *ssa.UnOp:
		return x.Op == token.ARROW
	case *ssa.Call:
		if b, ok := x.Call.Value.(*ssa.Builtin); ok {
			return b.Name() == "close"
		}
		if fn := x.Call.StaticCallee(); fn != nil {
			switch fn.String() {
			case "(*sync.Mutex).Lock", "(*sync.Mutex).Unlock", "(*sync.RWMutex).Lock", "(*sync.RWMutex).Unlock",
				"(*sync.RWMutex).RLock", "(*sync.RWMutex).RUnlock", "(*sync.WaitGroup).Done", "(*sync.WaitGroup).Wait",
				"(*sync.Once).Do":
				return true
			}
		}
	}
	return false
}

// maybePreempt: bounded preemption.  Before thread th executes a synchronisation
// operation, and while fewer than `preempt` forced switches happened on this path,
// the path forks: th goes on, or any other ready thread runs first (th stays at the
// operation).  Returns true when the state was forked/switched (the caller re-reads
// the current thread).
func (ex *Exec) maybePreempt(st *State, th *Thread, fr *Frame, in ssa.Instruction) bool {
	if !st.preemptOn || st.preempts >= ex.preemptBound || th.noPre == in || !isSyncPoint(in) {
		return false
	}
	var ready []int
	for i := range st.threads {
		if i != st.cur && ex.threadReady(st, i) {
			ready = append(ready, i)
		}
	}
	if len(ready) == 0 {
		return false
	}
	site := ex.sitePos(fr, in)
	cur := st.cur
	alts := []Alt{{cond: tTrue, then: func(ex *Exec, s2 *State, f2 *Frame) {
		s2.threads[cur].noPre = in
	}}}
	for _, j := range ready {
		j := j
		alts = append(alts, Alt{cond: tTrue, then: func(ex *Exec, s2 *State, f2 *Frame) {
			s2.threads[cur].noPre = in
			s2.preempts++
			s2.choices = append(s2.choices, fmt.Sprintf("preempt@%s:%s->%s", site, s2.threads[cur].name, s2.threads[j].name))
			s2.threads[j].blocked = ""
			s2.cur = j
		}})
	}
	ex.forkAlts(st, fr, nil, alts)
	return true
}

func (ex *Exec) where(st *State) string {
	if st == nil || len(st.threads) == 0 {
		return "?"
	}
	th := st.thread()
	var parts []string
	for i := len(th.frames) - 1; i >= 0 && len(parts) < 6; i-- {
		fr := th.frames[i]
		pos := ""
		if fr.block != nil && fr.ip < len(fr.block.Instrs) {
			p := fr.block.Instrs[fr.ip].Pos()
			if !p.IsValid() {
				// search backwards for a position
				for j := fr.ip; j >= 0 && !p.IsValid(); j-- {
					p = fr.block.Instrs[j].Pos()
				}
			}
			if p.IsValid() {
				pp := ex.P.prog.Fset.Position(p)
				pos = fmt.Sprintf("%s:%d", shortFile(pp.Filename), pp.Line)
			}
		}
		parts = append(parts, fmt.Sprintf("%s(%s)", fr.fn.String(), pos))
	}
	return strings.Join(parts, " < ")
}

func shortFile(f string) string {
	if i := strings.LastIndex(f, "/"); i >= 0 {
		return f[i+1:]
	}
	return f
}

func (ex *Exec) sitePos(fr *Frame, in ssa.Instruction) string {
	p := in.Pos()
	if !p.IsValid() {
		for j := fr.ip; j >= 0 && !p.IsValid(); j-- {
			p = fr.block.Instrs[j].Pos()
		}
	}
	if p.IsValid() {
		pp := ex.P.prog.Fset.Position(p)
		return fmt.Sprintf("%s:%d", shortFile(pp.Filename), pp.Line)
	}
	return fr.fn.String()
}

// jump moves the frame to block succ index i.
func (ex *Exec) jump(fr *Frame, to *ssa.BasicBlock) {
	from := fr.block
	// compute predecessor index for phis
	pi := -1
	for i, p := range to.Preds {
		if p == from {
			pi = i
			break
		}
	}
	fr.prev = pi
	fr.block = to
	fr.ip = 0
	// evaluate phis simultaneously
	var vals []Value
	n := 0
	for _, in := range to.Instrs {
		ph, ok := in.(*ssa.Phi)
		if !ok {
			break
		}
		n++
		e := ph.Edges[pi]
		switch x := e.(type) {
		case *ssa.Const:
			vals = append(vals, constVal(x))
		case *ssa.Global:
			vals = append(vals, Ptr{obj: exGlobal(x)})
		case *ssa.Function:
			vals = append(vals, &FuncV{fn: x})
		default:
			vals = append(vals, fr.regs[fr.info.index[e]])
		}
	}
	for i := 0; i < n; i++ {
		fr.regs[fr.info.index[to.Instrs[i].(ssa.Value)]] = vals[i]
	}
	fr.ip = n
}

const maxPathSteps = 60000000

var theProgram *Program

func exGlobal(g *ssa.Global) int {
	id, ok := theProgram.globals[g]
	if !ok {
		unsup("unknown global %s", g)
	}
	return id
}

// ------------------------------------------------------------------ panics

func (ex *Exec) goPanic(st *State, fr *Frame, msg string, val Value, rt bool) {
	th := st.thread()
	site := ""
	if fr != nil && fr.block != nil && fr.ip < len(fr.block.Instrs) {
		site = ex.sitePos(fr, fr.block.Instrs[fr.ip])
	}
	th.panicV = &PanicInfo{val: val, msg: msg, site: site + " in " + ex.where(st), rtErr: rt}
	ex.unwind(st)
}

// unwind runs deferred calls of the frames of the current thread while a
// panic is active (or finishes a recovered frame).
func (ex *Exec) unwind(st *State) {
	th := st.thread()
	for len(th.frames) > 0 {
		fr := th.frames[len(th.frames)-1]
		if len(fr.defers) > 0 {
			d := fr.defers[len(fr.defers)-1]
			fr.defers = fr.defers[:len(fr.defers)-1]
			fr.unwound = true
			ex.callDeferred(st, fr, d, func(ex *Exec, st *State, res Value) {
				ex.unwind(st)
			})
			return
		}
		if th.panicV == nil {
			// recovered: the function returns normally
			if fr.fn.Recover != nil {
				fr.block = fr.fn.Recover
				fr.ip = 0
				fr.unwound = false
				return
			}
			res := zeroResults(fr.fn)
			ex.popFrame(st, res)
			return
		}
		th.frames = th.frames[:len(th.frames)-1]
	}
	// uncaught panic ends the path
	p := th.panicV
	ex.endPath(st, "panic", p.msg+" @ "+p.site)
}

func zeroResults(fn *ssa.Function) Value {
	res := fn.Signature.Results()
	switch res.Len() {
	case 0:
		return nil
	case 1:
		return zeroVal(res.At(0).Type())
	}
	tv := make(TupleV, res.Len())
	for i := range tv {
		tv[i] = zeroVal(res.At(i).Type())
	}
	return tv
}

// popFrame returns res from the top frame to its caller.
func (ex *Exec) popFrame(st *State, res Value) {
	th := st.thread()
	fr := th.frames[len(th.frames)-1]
	th.frames = th.frames[:len(th.frames)-1]
	if fr.onRet != nil {
		fr.onRet(ex, st, res)
		return
	}
	if len(th.frames) == 0 {
		return
	}
	caller := th.frames[len(th.frames)-1]
	in := caller.block.Instrs[caller.ip]
	if v, ok := in.(ssa.Value); ok {
		if res == nil {
			res = TupleV{}
		}
		caller.regs[caller.info.index[v]] = res
	}
	caller.ip++
}

// ------------------------------------------------------------------ step

func (ex *Exec) step(st *State, fr *Frame, in ssa.Instruction) {
	switch x := in.(type) {
	case *ssa.DebugRef:
		fr.ip++
	case *ssa.Alloc:
		t := x.Type().Underlying().(*types.Pointer).Elem()
		id := st.alloc(zeroVal(t))
		ex.set(fr, x, Ptr{obj: id})
		fr.ip++
	case *ssa.BinOp:
		ex.binop(st, fr, x)
	case *ssa.UnOp:
		ex.unop(st, fr, x)
	case *ssa.Call:
		ex.doCall(st, fr, x, &x.Call, x)
	case *ssa.ChangeInterface:
		ex.set(fr, x, ex.get(st, fr, x.X))
		fr.ip++
	case *ssa.ChangeType:
		ex.set(fr, x, ex.get(st, fr, x.X))
		fr.ip++
	case *ssa.Convert:
		ex.convert(st, fr, x)
	case *ssa.Extract:
		tv := ex.get(st, fr, x.Tuple).(TupleV)
		ex.set(fr, x, tv[x.Index])
		fr.ip++
	case *ssa.Field:
		sv := ex.get(st, fr, x.X).(*StructV)
		ex.set(fr, x, sv.f[x.Field])
		fr.ip++
	case *ssa.FieldAddr:
		ex.fieldAddr(st, fr, x)
	case *ssa.Index:
		ex.index(st, fr, x)
	case *ssa.IndexAddr:
		ex.indexAddr(st, fr, x)
	case *ssa.Lookup:
		ex.lookup(st, fr, x)
	case *ssa.MakeChan:
		sz := ex.get(st, fr, x.Size).(*Term)
		if !sz.IsConst() {
			unsup("symbolic channel size")
		}
		et := x.Type().Underlying().(*types.Chan).Elem()
		id := st.alloc(&ChanObj{et: et, cap: int(sz.Int()), name: ex.sitePos(fr, x)})
		ex.set(fr, x, ChanV{obj: id})
		fr.ip++
	case *ssa.MakeClosure:
		fn := x.Fn.(*ssa.Function)
		b := make([]Value, len(x.Bindings))
		for i, bv := range x.Bindings {
			b[i] = ex.get(st, fr, bv)
		}
		ex.set(fr, x, &FuncV{fn: fn, bind: b})
		fr.ip++
	case *ssa.MakeInterface:
		ex.set(fr, x, IfaceV{t: x.X.Type(), v: ex.get(st, fr, x.X)})
		fr.ip++
	case *ssa.MakeMap:
		mt := x.Type().Underlying().(*types.Map)
		id := st.alloc(&MapObj{kt: mt.Key(), vt: mt.Elem(), m: map[string]*MapEntry{}})
		ex.set(fr, x, MapV{obj: id})
		fr.ip++
	case *ssa.MakeSlice:
		ex.makeSlice(st, fr, x)
	case *ssa.MapUpdate:
		ex.mapUpdate(st, fr, x)
	case *ssa.Range:
		ex.rangeInit(st, fr, x)
	case *ssa.Next:
		ex.next(st, fr, x)
	case *ssa.Phi:
		panic("phi reached outside jump")
	case *ssa.Select:
		ex.doSelect(st, fr, x)
	case *ssa.Send:
		ex.send(st, fr, x)
	case *ssa.Slice:
		ex.slice(st, fr, x)
	case *ssa.Store:
		ex.storeInstr(st, fr, x)
	case *ssa.TypeAssert:
		ex.typeAssert(st, fr, x)
	case *ssa.If:
		ex.doIf(st, fr, x)
	case *ssa.Jump:
		ex.jump(fr, fr.block.Succs[0])
	case *ssa.Return:
		var res Value
		switch len(x.Results) {
		case 0:
		case 1:
			res = ex.get(st, fr, x.Results[0])
		default:
			tv := make(TupleV, len(x.Results))
			for i, r := range x.Results {
				tv[i] = ex.get(st, fr, r)
			}
			res = tv
		}
		ex.popFrame(st, res)
	case *ssa.Panic:
		v := ex.get(st, fr, x.X)
		ex.goPanic(st, fr, "panic: "+valString(v), v, false)
	case *ssa.Go:
		ex.doGo(st, fr, x)
	case *ssa.Defer:
		ex.doDefer(st, fr, x)
	case *ssa.RunDefers:
		if len(fr.defers) == 0 {
			fr.ip++
			return
		}
		d := fr.defers[len(fr.defers)-1]
		fr.defers = fr.defers[:len(fr.defers)-1]
		ex.callDeferred(st, fr, d, func(ex *Exec, st *State, res Value) {})
	case *ssa.SliceToArrayPointer:
		sl := ex.get(st, fr, x.X).(SliceV)
		ex.set(fr, x, sliceArrayPtr(st, sl))
		fr.ip++
	default:
		unsup("instruction %T", in)
	}
}

func sliceArrayPtr(st *State, sl SliceV) Value {
	if sl.off != 0 {
		unsup("SliceToArrayPointer with offset")
	}
	return sl.arr
}

// ------------------------------------------------------------------ branching

type Alt struct {
	cond *Term
	val  Value
	// definitional constraints over fresh variables: always satisfiable once
	// cond holds, so they are added to the path condition without a query;
	// fix extends a witness model with values for the fresh variables.
	defs []*Term
	fix  func(m Model) Model
	// optional: continuation applied in the forked state instead of storing val
	then func(ex *Exec, st *State, fr *Frame)
}

func (ex *Exec) doIf(st *State, fr *Frame, x *ssa.If) {
	c := ex.get(st, fr, x.Cond).(*Term)
	if c.IsConst() {
		if c.Bool() {
			ex.jump(fr, fr.block.Succs[0])
		} else {
			ex.jump(fr, fr.block.Succs[1])
		}
		return
	}
	if ex.tryIfConvert(st, fr, x, c) {
		return
	}
	if ex.tryMergeChain(st, fr, x, c) {
		return
	}
	if handled, c2 := ex.splitByteConj(st, fr, c,
		func(s2 *State, f2 *Frame) { ex.jump(f2, f2.block.Succs[0]) },
		func(s2 *State, f2 *Frame) { ex.jump(f2, f2.block.Succs[1]) }); handled {
		return
	} else {
		c = c2
	}
	ex.branches++
	canT, canF, mT, mF := ex.feasible(st, c)
	if fr.symBr == nil {
		fr.symBr = make(map[ssa.Instruction]int)
	}
	fr.symBr[x]++
	if canT && canF && fr.symBr[x] > ex.cfg.Unwind {
		ex.endPath(st, "unwind", fmt.Sprintf("symbolic branch taken >%d times at %s", ex.cfg.Unwind, ex.sitePos(fr, x)))
		return
	}
	switch {
	case canT && canF:
		ex.forks++
		if ex.forkSites != nil {
			ex.forkSites[ex.sitePos(fr, x)+" "+fr.fn.Name()]++
		}
		other := st.fork()
		// other takes the false side
		ofr := other.top()
		other.addPC(mkNot(c))
		other.model, other.modelOK = mF, mF != nil
		other.depth++
		ex.jump(ofr, ofr.block.Succs[1])
		ex.work = append(ex.work, other)
		st.addPC(c)
		st.model, st.modelOK = mT, mT != nil
		st.depth++
		ex.jump(fr, fr.block.Succs[0])
	case canT:
		st.addPC(c)
		ex.jump(fr, fr.block.Succs[0])
	case canF:
		st.addPC(mkNot(c))
		ex.jump(fr, fr.block.Succs[1])
	default:
		ex.endPath(st, "infeasible", "both branch sides infeasible at "+ex.sitePos(fr, x))
	}
}

// forkAlts continues st along each feasible alternative; the instruction's
// value register receives alt.val and ip advances.
func (ex *Exec) forkAlts(st *State, fr *Frame, dst ssa.Value, alts []Alt) {
	type feas struct {
		a Alt
		m Model
	}
	var ok []feas
	for _, a := range alts {
		if isFalse(a.cond) {
			continue
		}
		if isTrue(a.cond) {
			ok = append(ok, feas{a, st.model})
			continue
		}
		can, m := ex.feasibleOne(st, a.cond)
		if can {
			ok = append(ok, feas{a, m})
		}
	}
	if len(ok) == 0 {
		ex.endPath(st, "infeasible", "no feasible alternative at "+ex.where(st))
		return
	}
	if len(ok) > 1 {
		ex.forks += len(ok) - 1
	}
	thIdx := st.cur
	depthOf := len(st.thread().frames) - 1
	for i := len(ok) - 1; i >= 0; i-- {
		var s2 *State
		if i == 0 {
			s2 = st
		} else {
			s2 = st.fork()
		}
		f2 := s2.threads[thIdx].frames[depthOf]
		s2.addPC(ok[i].a.cond)
		if !isTrue(ok[i].a.cond) {
			s2.model, s2.modelOK = ok[i].m, ok[i].m != nil
			s2.depth++
		}
		if ok[i].a.defs != nil {
			for _, d := range ok[i].a.defs {
				s2.addPC(d)
			}
			if s2.modelOK && ok[i].a.fix != nil {
				s2.model = ok[i].a.fix(s2.model)
			} else {
				s2.modelOK = false
			}
		}
		if ok[i].a.then != nil {
			ok[i].a.then(ex, s2, f2)
		} else {
			if dst != nil {
				f2.regs[f2.info.index[dst]] = ok[i].a.val
			}
			f2.ip++
		}
		if i != 0 {
			ex.work = append(ex.work, s2)
		}
	}
}

// concretize enumerates the feasible values of t (at most max); ok=false if more.
func (ex *Exec) concretize(st *State, t *Term, max int) ([]uint64, bool) {
	if t.IsConst() {
		return []uint64{t.val}, true
	}
	var vals []uint64
	var excl []*Term
	for len(vals) <= max {
		cond := mkAnd(excl...)
		can, m := ex.feasibleOne(st, cond)
		if !can {
			sort.Slice(vals, func(i, j int) bool { return vals[i] < vals[j] })
			return vals, true
		}
		if m == nil {
			return nil, false
		}
		v, okEval := evalTerm(t, m)
		if !okEval {
			return nil, false
		}
		vals = append(vals, v)
		excl = append(excl, mkNe(t, mkBV(t.sort.Bits, v)))
	}
	return nil, false
}

// ------------------------------------------------------------------ switch / || / && chain merging
//
// `case '0', '1', ...:` and `a || b || c` compile to a chain of blocks
//     B_i: t_i = <pure compare>; if t_i goto T else B_{i+1}
// (and `a && b` to the mirror image with a shared false target).  Forking at
// every link multiplies paths by the number of alternatives; instead the chain
// is decided once on the disjunction (conjunction) of its conditions.

func pureForChain(in ssa.Instruction) bool {
	switch v := in.(type) {
	case *ssa.BinOp:
		switch v.X.Type().Underlying().(type) {
		case *types.Basic:
			b := v.X.Type().Underlying().(*types.Basic)
			if b.Info()&(types.IsInteger|types.IsBoolean) != 0 {
				switch v.Op.String() {
				case "/", "%", "<<", ">>":
					return false
				}
				return true
			}
		}
		return false
	case *ssa.UnOp:
		return v.Op.String() == "!"
	case *ssa.Convert:
		_, _, ok1 := typeIntBits(v.X.Type())
		_, _, ok2 := typeIntBits(v.Type())
		return ok1 && ok2
	case *ssa.DebugRef:
		return true
	}
	return false
}

func predIndex(to, from *ssa.BasicBlock) int {
	for i, p := range to.Preds {
		if p == from {
			return i
		}
	}
	return -1
}

func numPhis(b *ssa.BasicBlock) int {
	n := 0
	for _, in := range b.Instrs {
		if _, ok := in.(*ssa.Phi); !ok {
			break
		}
		n++
	}
	return n
}

// edgeVal: the value phi ph receives when control arrives from block from.
func (ex *Exec) edgeVal(st *State, fr *Frame, to *ssa.BasicBlock, ph *ssa.Phi, from *ssa.BasicBlock) (Value, bool) {
	i := predIndex(to, from)
	if i < 0 {
		return nil, false
	}
	e := ph.Edges[i]
	switch x := e.(type) {
	case *ssa.Const:
		return constVal(x), true
	case *ssa.Global:
		return Ptr{obj: exGlobal(x)}, true
	case *ssa.Function:
		return &FuncV{fn: x}, true
	}
	idx, ok := fr.info.index[e]
	if !ok || fr.regs[idx] == nil {
		return nil, false
	}
	return fr.regs[idx], true
}

// enterWithPhis moves the frame to block to with the given phi values.
func (ex *Exec) enterWithPhis(fr *Frame, to *ssa.BasicBlock, vals []Value) {
	fr.block = to
	for i, v := range vals {
		fr.regs[fr.info.index[to.Instrs[i].(ssa.Value)]] = v
	}
	fr.ip = len(vals)
	fr.prev = -1
}

// evalPure executes the pure instructions ins of block blk in place; ok=false if something is not evaluable.
func (ex *Exec) evalPure(st *State, fr *Frame, blk *ssa.BasicBlock, ins []ssa.Instruction) (ok bool) {
	ok = true
	defer func() {
		if r := recover(); r != nil {
			ok = false
		}
	}()
	saveBlock, saveIP := fr.block, fr.ip
	defer func() { fr.block, fr.ip = saveBlock, saveIP }()
	fr.block = blk
	for i, in := range ins {
		fr.ip = i
		switch v := in.(type) {
		case *ssa.BinOp:
			a, aok := ex.get(st, fr, v.X).(*Term)
			b, bok := ex.get(st, fr, v.Y).(*Term)
			if !aok || !bok {
				return false
			}
			ex.termBinop(st, fr, v, a, b)
		case *ssa.UnOp:
			ex.set(fr, v, mkNot(ex.get(st, fr, v.X).(*Term)))
		case *ssa.Convert:
			ex.convert(st, fr, v)
		}
		if st.status != "" {
			return false
		}
	}
	return true
}

// pureArm: blk has the single predecessor pred, consists of pure instructions and ends in a Jump; returns its target.
func pureArm(blk, pred *ssa.BasicBlock) (*ssa.BasicBlock, bool) {
	if len(blk.Preds) != 1 || blk.Preds[0] != pred || len(blk.Instrs) == 0 || len(blk.Instrs) > 12 {
		return nil, false
	}
	if _, ok := blk.Instrs[len(blk.Instrs)-1].(*ssa.Jump); !ok {
		return nil, false
	}
	for _, in := range blk.Instrs[:len(blk.Instrs)-1] {
		if !pureForChain(in) {
			return nil, false
		}
	}
	return blk.Succs[0], true
}

// tryIfConvert: `if c { pure } [else { pure }]` joining at J becomes ite-phis at J, without forking.
func (ex *Exec) tryIfConvert(st *State, fr *Frame, x *ssa.If, c *Term) bool {
	B := fr.block
	T, F := B.Succs[0], B.Succs[1]
	var J *ssa.BasicBlock
	var fromT, fromF *ssa.BasicBlock
	jt, okT := pureArm(T, B)
	jf, okF := pureArm(F, B)
	switch {
	case okT && okF && jt == jf && T != F:
		J, fromT, fromF = jt, T, F
	case okT && jt == F:
		J, fromT, fromF = F, T, B
	case okF && jf == T:
		J, fromT, fromF = T, B, F
	default:
		return false
	}
	if J == B || len(J.Preds) < 2 {
		return false
	}
	if fromT != B && !ex.evalPure(st, fr, fromT, fromT.Instrs[:len(fromT.Instrs)-1]) {
		return false
	}
	if fromF != B && !ex.evalPure(st, fr, fromF, fromF.Instrs[:len(fromF.Instrs)-1]) {
		return false
	}
	n := numPhis(J)
	vals := make([]Value, n)
	for i := 0; i < n; i++ {
		ph := J.Instrs[i].(*ssa.Phi)
		vt, ok1 := ex.edgeVal(st, fr, J, ph, fromT)
		vf, ok2 := ex.edgeVal(st, fr, J, ph, fromF)
		if !ok1 || !ok2 {
			return false
		}
		m, ok := mergeVal(c, vt, vf)
		if !ok {
			return false
		}
		vals[i] = m
	}
	ex.ifConverted++
	ex.enterWithPhis(fr, J, vals)
	return true
}

// effTarget looks through an empty single-predecessor block that only jumps on.
func effTarget(b *ssa.BasicBlock, from *ssa.BasicBlock) (*ssa.BasicBlock, *ssa.BasicBlock) {
	if len(b.Preds) == 1 && len(b.Instrs) == 1 {
		if _, ok := b.Instrs[0].(*ssa.Jump); ok {
			return b.Succs[0], b
		}
	}
	return b, from
}

func (ex *Exec) tryMergeChain(st *State, fr *Frame, x *ssa.If, c0 *Term) bool {
	for _, side := range []int{0, 1} { // 0: shared true target (||, switch); 1: shared false target (&&)
		shared, from0 := effTarget(fr.block.Succs[side], fr.block)
		conds := []*Term{c0}
		chain := []*ssa.BasicBlock{fr.block}
		phiFrom := []*ssa.BasicBlock{from0}
		cur := fr.block
		next := cur.Succs[1-side]
		for len(chain) < 64 {
			if len(next.Preds) != 1 || len(next.Instrs) == 0 || len(next.Instrs) > 4 {
				break
			}
			last, ok := next.Instrs[len(next.Instrs)-1].(*ssa.If)
			if !ok {
				break
			}
			tgt, fromK := effTarget(next.Succs[side], next)
			if tgt != shared || next.Succs[1-side] == shared {
				break
			}
			pure := true
			for _, in := range next.Instrs[:len(next.Instrs)-1] {
				if !pureForChain(in) {
					pure = false
					break
				}
			}
			if !pure {
				break
			}
			if !ex.evalPure(st, fr, next, next.Instrs[:len(next.Instrs)-1]) {
				return false
			}
			ct, isT := ex.get(st, fr, last.Cond).(*Term)
			if !isT {
				break
			}
			conds = append(conds, ct)
			chain = append(chain, next)
			phiFrom = append(phiFrom, fromK)
			cur = next
			next = cur.Succs[1-side]
		}
		if len(chain) < 2 {
			continue
		}
		// phi values at the shared target: ite over the chain's conditions
		nph := numPhis(shared)
		phiVals := make([]Value, nph)
		phiOK := true
		for i := 0; i < nph && phiOK; i++ {
			ph := shared.Instrs[i].(*ssa.Phi)
			var acc Value
			for k := len(chain) - 1; k >= 0; k-- {
				ev, ok := ex.edgeVal(st, fr, shared, ph, phiFrom[k])
				if !ok {
					phiOK = false
					break
				}
				if acc == nil {
					acc = ev
					continue
				}
				ck := conds[k]
				if side == 1 {
					ck = mkNot(ck)
				}
				m, ok := mergeVal(ck, ev, acc)
				if !ok {
					phiOK = false
					break
				}
				acc = m
			}
			phiVals[i] = acc
		}
		if !phiOK {
			continue
		}
		var any *Term
		if side == 0 {
			any = mkOr(conds...)
		} else {
			any = mkAnd(conds...)
		}
		// decide once
		ex.branches++
		var canS, canO bool // shared target / other (fall through the whole chain)
		var mS, mO Model
		if side == 0 {
			canS, canO, mS, mO = ex.feasible(st, any)
		} else {
			canO, canS, mO, mS = ex.feasible(st, any)
		}
		condShared := any
		if side == 1 {
			condShared = mkNot(any)
		}
		if fr.symBr == nil {
			fr.symBr = make(map[ssa.Instruction]int)
		}
		fr.symBr[x]++
		if canS && canO && fr.symBr[x] > ex.cfg.Unwind {
			ex.endPath(st, "unwind", fmt.Sprintf("symbolic branch taken >%d times at %s", ex.cfg.Unwind, ex.sitePos(fr, x)))
			return true
		}
		lastBlk := chain[len(chain)-1]
		goShared := func(s2 *State, f2 *Frame) {
			ex.enterWithPhis(f2, shared, phiVals)
		}
		goOther := func(s2 *State, f2 *Frame) {
			f2.block = lastBlk
			ex.jump(f2, lastBlk.Succs[1-side])
		}
		switch {
		case canS && canO:
			ex.forks++
			other := st.fork()
			ofr := other.top()
			other.addPC(mkNot(condShared))
			other.model, other.modelOK = mO, mO != nil
			other.depth++
			goOther(other, ofr)
			ex.work = append(ex.work, other)
			st.addPC(condShared)
			st.model, st.modelOK = mS, mS != nil
			st.depth++
			goShared(st, fr)
		case canS:
			st.addPC(condShared)
			goShared(st, fr)
		case canO:
			st.addPC(mkNot(condShared))
			goOther(st, fr)
		default:
			ex.endPath(st, "infeasible", "both sides of a merged branch chain infeasible at "+ex.sitePos(fr, x))
		}
		return true
	}
	return false
}
