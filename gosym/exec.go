package main

import (
	"fmt"
	"os"
	"go/constant"
	"go/types"
	"sort"
	"strings"
	"sync"
	"time"

	"golang.org/x/tools/go/ssa"
)

// SymPtr is a pointer with one symbolic array index on its path:
// base.path ++ [idx] ++ post, idx in [0,n).
type SymPtr struct {
	base Ptr
	idx  *Term // BV64
	n    int
	post string
}

func (p SymPtr) at(i int) Ptr {
	return Ptr{p.base.obj, pathAppend(p.base.path, i) + p.post}
}

type Program struct {
	prog     *ssa.Program
	pkgs     map[string]*ssa.Package
	globals  map[*ssa.Global]int
	gtypes   []*ssa.Global // index = object id
	fninfo   sync.Map
	initHeap Heap
	msets    *typeCache
}

type typeCache struct {
	mu sync.Mutex
}

func (p *Program) info(fn *ssa.Function) *FnInfo {
	if v, ok := p.fninfo.Load(fn); ok {
		return v.(*FnInfo)
	}
	fi := buildFnInfo(fn)
	p.fninfo.Store(fn, fi)
	return fi
}

type Exec struct {
	P      *Program
	solver *Solver
	cfg    *RunCfg
	work   []*State
	// statistics
	paths      int
	pathsByEnd map[string]int
	branches   int
	forks      int
	instrs     int64
	fnEntered  map[string]int
	violations []*Violation
	asserts    map[string]*AssertSite
	incon      []string // reasons the run is inconclusive
	samples    []PathSample
	deadline   time.Time
	domPrunes  int
	modelHits  int
	queriesBr  int
	curHarness string
	params     map[string]int
	passModels []PassModel
	accessAll  map[string]*AccessSummary
	blockSites map[string]int
	lenient    bool
	initDone   map[string]bool
	initLog    *[]string
}

type AccessSummary struct {
	Loc        string
	Reads      int
	Writes     int
	Unlocked   int
	UnlockedW  int
	Threads    map[string]bool
	Sites      map[string]bool
	UnlockedAt map[string]bool
}

type PassModel struct {
	Inputs map[string]uint64
	Notes  []Note
}

type AssertSite struct {
	Msg     string
	Reached int
	Proved  int
	Trivial int
	Failed  int
}

type Violation struct {
	Harness string
	Msg     string
	Inputs  map[string]uint64
	Kinds   map[string]string
	Notes   []Note
	Kind    string // assert | panic | blocked
	Choices []string
}

type PathSample struct {
	End     string
	Choices []string
	Inputs  map[string]uint64
	Notes   []Note
	PCLen   int
}

type RunCfg struct {
	MaxPaths   int
	MaxSeconds float64
	Unwind     int
	MaxDepth   int
	PanicIsBug bool
	Verbose    int
	StopOnViol bool
	SampleN    int
}

// ------------------------------------------------------------------ operand fetch

func (ex *Exec) get(st *State, fr *Frame, v ssa.Value) Value {
	switch x := v.(type) {
	case *ssa.Const:
		return constVal(x)
	case *ssa.Global:
		id, ok := ex.P.globals[x]
		if !ok {
			unsup("unknown global %s", x)
		}
		return Ptr{obj: id}
	case *ssa.Function:
		return &FuncV{fn: x}
	case *ssa.Builtin:
		return &FuncV{bi: x}
	}
	idx, ok := fr.info.index[v]
	if !ok {
		panic(fmt.Sprintf("no register for %T %s in %s", v, v.Name(), fr.fn))
	}
	r := fr.regs[idx]
	if r == nil {
		panic(fmt.Sprintf("read of unset register %s in %s", v.Name(), fr.fn))
	}
	return r
}

func (ex *Exec) set(fr *Frame, v ssa.Value, val Value) {
	fr.regs[fr.info.index[v]] = val
}

func constVal(c *ssa.Const) Value {
	t := c.Type()
	if c.Value == nil {
		return zeroVal(t)
	}
	switch u := t.Underlying().(type) {
	case *types.Basic:
		switch {
		case u.Info()&types.IsBoolean != 0:
			return mkBool(constant.BoolVal(c.Value))
		case u.Info()&types.IsString != 0:
			return mkStr(constant.StringVal(c.Value))
		case u.Info()&types.IsInteger != 0:
			n, signed, _ := intBits(u.Kind())
			if signed {
				iv, _ := constant.Int64Val(constant.ToInt(c.Value))
				return mkBV(n, uint64(iv))
			}
			uv, _ := constant.Uint64Val(constant.ToInt(c.Value))
			return mkBV(n, uv)
		case u.Info()&types.IsFloat != 0:
			f, _ := constant.Float64Val(c.Value)
			if u.Kind() == types.Float32 {
				f = float64(float32(f))
			}
			return mkFP(f)
		}
	case *types.Interface, *types.Pointer, *types.Slice, *types.Map, *types.Chan, *types.Signature:
		return zeroVal(t)
	}
	unsup("const of type %v", t)
	return nil
}

// ------------------------------------------------------------------ path ends

func (ex *Exec) endPath(st *State, status, detail string) {
	st.status = status
	st.detail = detail
}

func inputsOf(st *State, m Model) (map[string]uint64, map[string]string) {
	vals := make(map[string]uint64, len(st.inputs))
	kinds := make(map[string]string, len(st.inputs))
	for _, in := range st.inputs {
		if in.T.op == OpConst {
			vals[in.Name] = in.T.val
		} else {
			v, _ := evalTerm(in.T, m)
			vals[in.Name] = v
		}
		kinds[in.Name] = in.Kind
	}
	return vals, kinds
}

// ------------------------------------------------------------------ main loop

// runState executes st until it finishes (status set).  Forked siblings are
// pushed on ex.work.
func (ex *Exec) runState(st *State) {
	defer func() {
		if r := recover(); r != nil {
			if u, ok := r.(unsupported); ok {
				ex.endPath(st, "unsupported", u.msg+" @ "+ex.where(st))
				return
			}
			if ex.cfg.Verbose > 0 {
				fmt.Fprintf(os.Stderr, "ENGINE PANIC at %s\n", ex.where(st))
				if fr := st.top(); fr != nil && fr.ip < len(fr.block.Instrs) {
					fmt.Fprintf(os.Stderr, "  instr: %s\n", fr.block.Instrs[fr.ip])
				}
				panic(r)
			}
			ex.endPath(st, "engine-error", fmt.Sprintf("%v @ %s", r, ex.where(st)))
		}
	}()
	for st.status == "" {
		if ex.instrs&0x3fff == 0 && time.Now().After(ex.deadline) {
			ex.endPath(st, "timeout", "deadline")
			return
		}
		th := st.thread()
		if len(th.frames) == 0 {
			th.done = true
			if st.cur == 0 {
				ex.endPath(st, "done", "")
				return
			}
			ex.schedule(st)
			continue
		}
		fr := th.frames[len(th.frames)-1]
		if fr.ip >= len(fr.block.Instrs) {
			panic("fell off block end in " + fr.fn.String())
		}
		in := fr.block.Instrs[fr.ip]
		ex.instrs++
		ex.step(st, fr, in)
	}
}

func (ex *Exec) where(st *State) string {
	if st == nil || len(st.threads) == 0 {
		return "?"
	}
	th := st.thread()
	var parts []string
	for i := len(th.frames) - 1; i >= 0 && len(parts) < 6; i-- {
		fr := th.frames[i]
		pos := ""
		if fr.block != nil && fr.ip < len(fr.block.Instrs) {
			p := fr.block.Instrs[fr.ip].Pos()
			if !p.IsValid() {
				// search backwards for a position
				for j := fr.ip; j >= 0 && !p.IsValid(); j-- {
					p = fr.block.Instrs[j].Pos()
				}
			}
			if p.IsValid() {
				pp := ex.P.prog.Fset.Position(p)
				pos = fmt.Sprintf("%s:%d", shortFile(pp.Filename), pp.Line)
			}
		}
		parts = append(parts, fmt.Sprintf("%s(%s)", fr.fn.String(), pos))
	}
	return strings.Join(parts, " < ")
}

func shortFile(f string) string {
	if i := strings.LastIndex(f, "/"); i >= 0 {
		return f[i+1:]
	}
	return f
}

func (ex *Exec) sitePos(fr *Frame, in ssa.Instruction) string {
	p := in.Pos()
	if !p.IsValid() {
		for j := fr.ip; j >= 0 && !p.IsValid(); j-- {
			p = fr.block.Instrs[j].Pos()
		}
	}
	if p.IsValid() {
		pp := ex.P.prog.Fset.Position(p)
		return fmt.Sprintf("%s:%d", shortFile(pp.Filename), pp.Line)
	}
	return fr.fn.String()
}

// jump moves the frame to block succ index i.
func (ex *Exec) jump(fr *Frame, to *ssa.BasicBlock) {
	from := fr.block
	// compute predecessor index for phis
	pi := -1
	for i, p := range to.Preds {
		if p == from {
			pi = i
			break
		}
	}
	fr.prev = pi
	fr.block = to
	fr.ip = 0
	// evaluate phis simultaneously
	var vals []Value
	n := 0
	for _, in := range to.Instrs {
		ph, ok := in.(*ssa.Phi)
		if !ok {
			break
		}
		n++
		e := ph.Edges[pi]
		switch x := e.(type) {
		case *ssa.Const:
			vals = append(vals, constVal(x))
		case *ssa.Global:
			vals = append(vals, Ptr{obj: exGlobal(x)})
		case *ssa.Function:
			vals = append(vals, &FuncV{fn: x})
		default:
			vals = append(vals, fr.regs[fr.info.index[e]])
		}
	}
	for i := 0; i < n; i++ {
		fr.regs[fr.info.index[to.Instrs[i].(ssa.Value)]] = vals[i]
	}
	fr.ip = n
}

var theProgram *Program

func exGlobal(g *ssa.Global) int {
	id, ok := theProgram.globals[g]
	if !ok {
		unsup("unknown global %s", g)
	}
	return id
}

// ------------------------------------------------------------------ panics

func (ex *Exec) goPanic(st *State, fr *Frame, msg string, val Value, rt bool) {
	th := st.thread()
	site := ""
	if fr != nil && fr.block != nil && fr.ip < len(fr.block.Instrs) {
		site = ex.sitePos(fr, fr.block.Instrs[fr.ip])
	}
	th.panicV = &PanicInfo{val: val, msg: msg, site: site + " in " + ex.where(st), rtErr: rt}
	ex.unwind(st)
}

// unwind runs deferred calls of the frames of the current thread while a
// panic is active (or finishes a recovered frame).
func (ex *Exec) unwind(st *State) {
	th := st.thread()
	for len(th.frames) > 0 {
		fr := th.frames[len(th.frames)-1]
		if len(fr.defers) > 0 {
			d := fr.defers[len(fr.defers)-1]
			fr.defers = fr.defers[:len(fr.defers)-1]
			fr.unwound = true
			ex.callDeferred(st, fr, d, func(ex *Exec, st *State, res Value) {
				ex.unwind(st)
			})
			return
		}
		if th.panicV == nil {
			// recovered: the function returns normally
			if fr.fn.Recover != nil {
				fr.block = fr.fn.Recover
				fr.ip = 0
				fr.unwound = false
				return
			}
			res := zeroResults(fr.fn)
			ex.popFrame(st, res)
			return
		}
		th.frames = th.frames[:len(th.frames)-1]
	}
	// uncaught panic ends the path
	p := th.panicV
	ex.endPath(st, "panic", p.msg+" @ "+p.site)
}

func zeroResults(fn *ssa.Function) Value {
	res := fn.Signature.Results()
	switch res.Len() {
	case 0:
		return nil
	case 1:
		return zeroVal(res.At(0).Type())
	}
	tv := make(TupleV, res.Len())
	for i := range tv {
		tv[i] = zeroVal(res.At(i).Type())
	}
	return tv
}

// popFrame returns res from the top frame to its caller.
func (ex *Exec) popFrame(st *State, res Value) {
	th := st.thread()
	fr := th.frames[len(th.frames)-1]
	th.frames = th.frames[:len(th.frames)-1]
	if fr.onRet != nil {
		fr.onRet(ex, st, res)
		return
	}
	if len(th.frames) == 0 {
		return
	}
	caller := th.frames[len(th.frames)-1]
	in := caller.block.Instrs[caller.ip]
	if v, ok := in.(ssa.Value); ok {
		if res == nil {
			res = TupleV{}
		}
		caller.regs[caller.info.index[v]] = res
	}
	caller.ip++
}

// ------------------------------------------------------------------ step

func (ex *Exec) step(st *State, fr *Frame, in ssa.Instruction) {
	switch x := in.(type) {
	case *ssa.DebugRef:
		fr.ip++
	case *ssa.Alloc:
		t := x.Type().Underlying().(*types.Pointer).Elem()
		id := st.alloc(zeroVal(t))
		ex.set(fr, x, Ptr{obj: id})
		fr.ip++
	case *ssa.BinOp:
		ex.binop(st, fr, x)
	case *ssa.UnOp:
		ex.unop(st, fr, x)
	case *ssa.Call:
		ex.doCall(st, fr, x, &x.Call, x)
	case *ssa.ChangeInterface:
		ex.set(fr, x, ex.get(st, fr, x.X))
		fr.ip++
	case *ssa.ChangeType:
		ex.set(fr, x, ex.get(st, fr, x.X))
		fr.ip++
	case *ssa.Convert:
		ex.convert(st, fr, x)
	case *ssa.Extract:
		tv := ex.get(st, fr, x.Tuple).(TupleV)
		ex.set(fr, x, tv[x.Index])
		fr.ip++
	case *ssa.Field:
		sv := ex.get(st, fr, x.X).(*StructV)
		ex.set(fr, x, sv.f[x.Field])
		fr.ip++
	case *ssa.FieldAddr:
		ex.fieldAddr(st, fr, x)
	case *ssa.Index:
		ex.index(st, fr, x)
	case *ssa.IndexAddr:
		ex.indexAddr(st, fr, x)
	case *ssa.Lookup:
		ex.lookup(st, fr, x)
	case *ssa.MakeChan:
		sz := ex.get(st, fr, x.Size).(*Term)
		if !sz.IsConst() {
			unsup("symbolic channel size")
		}
		et := x.Type().Underlying().(*types.Chan).Elem()
		id := st.alloc(&ChanObj{et: et, cap: int(sz.Int()), name: ex.sitePos(fr, x)})
		ex.set(fr, x, ChanV{obj: id})
		fr.ip++
	case *ssa.MakeClosure:
		fn := x.Fn.(*ssa.Function)
		b := make([]Value, len(x.Bindings))
		for i, bv := range x.Bindings {
			b[i] = ex.get(st, fr, bv)
		}
		ex.set(fr, x, &FuncV{fn: fn, bind: b})
		fr.ip++
	case *ssa.MakeInterface:
		ex.set(fr, x, IfaceV{t: x.X.Type(), v: ex.get(st, fr, x.X)})
		fr.ip++
	case *ssa.MakeMap:
		mt := x.Type().Underlying().(*types.Map)
		id := st.alloc(&MapObj{kt: mt.Key(), vt: mt.Elem(), m: map[string]*MapEntry{}})
		ex.set(fr, x, MapV{obj: id})
		fr.ip++
	case *ssa.MakeSlice:
		ex.makeSlice(st, fr, x)
	case *ssa.MapUpdate:
		ex.mapUpdate(st, fr, x)
	case *ssa.Range:
		ex.rangeInit(st, fr, x)
	case *ssa.Next:
		ex.next(st, fr, x)
	case *ssa.Phi:
		panic("phi reached outside jump")
	case *ssa.Select:
		ex.doSelect(st, fr, x)
	case *ssa.Send:
		ex.send(st, fr, x)
	case *ssa.Slice:
		ex.slice(st, fr, x)
	case *ssa.Store:
		ex.storeInstr(st, fr, x)
	case *ssa.TypeAssert:
		ex.typeAssert(st, fr, x)
	case *ssa.If:
		ex.doIf(st, fr, x)
	case *ssa.Jump:
		ex.jump(fr, fr.block.Succs[0])
	case *ssa.Return:
		var res Value
		switch len(x.Results) {
		case 0:
		case 1:
			res = ex.get(st, fr, x.Results[0])
		default:
			tv := make(TupleV, len(x.Results))
			for i, r := range x.Results {
				tv[i] = ex.get(st, fr, r)
			}
			res = tv
		}
		ex.popFrame(st, res)
	case *ssa.Panic:
		v := ex.get(st, fr, x.X)
		ex.goPanic(st, fr, "panic: "+valString(v), v, false)
	case *ssa.Go:
		ex.doGo(st, fr, x)
	case *ssa.Defer:
		ex.doDefer(st, fr, x)
	case *ssa.RunDefers:
		if len(fr.defers) == 0 {
			fr.ip++
			return
		}
		d := fr.defers[len(fr.defers)-1]
		fr.defers = fr.defers[:len(fr.defers)-1]
		ex.callDeferred(st, fr, d, func(ex *Exec, st *State, res Value) {})
	case *ssa.SliceToArrayPointer:
		sl := ex.get(st, fr, x.X).(SliceV)
		ex.set(fr, x, sliceArrayPtr(st, sl))
		fr.ip++
	default:
		unsup("instruction %T", in)
	}
}

func sliceArrayPtr(st *State, sl SliceV) Value {
	if sl.off != 0 {
		unsup("SliceToArrayPointer with offset")
	}
	return sl.arr
}

// ------------------------------------------------------------------ branching

type Alt struct {
	cond *Term
	val  Value
	// definitional constraints over fresh variables: always satisfiable once
	// cond holds, so they are added to the path condition without a query;
	// fix extends a witness model with values for the fresh variables.
	defs []*Term
	fix  func(m Model) Model
	// optional: continuation applied in the forked state instead of storing val
	then func(ex *Exec, st *State, fr *Frame)
}

func (ex *Exec) doIf(st *State, fr *Frame, x *ssa.If) {
	c := ex.get(st, fr, x.Cond).(*Term)
	if c.IsConst() {
		if c.Bool() {
			ex.jump(fr, fr.block.Succs[0])
		} else {
			ex.jump(fr, fr.block.Succs[1])
		}
		return
	}
	ex.branches++
	canT, canF, mT, mF := ex.feasible(st, c)
	if fr.symBr == nil {
		fr.symBr = make(map[ssa.Instruction]int)
	}
	fr.symBr[x]++
	if canT && canF && fr.symBr[x] > ex.cfg.Unwind {
		ex.endPath(st, "unwind", fmt.Sprintf("symbolic branch taken >%d times at %s", ex.cfg.Unwind, ex.sitePos(fr, x)))
		return
	}
	switch {
	case canT && canF:
		ex.forks++
		other := st.fork()
		// other takes the false side
		ofr := other.top()
		other.addPC(mkNot(c))
		other.model, other.modelOK = mF, mF != nil
		other.depth++
		ex.jump(ofr, ofr.block.Succs[1])
		ex.work = append(ex.work, other)
		st.addPC(c)
		st.model, st.modelOK = mT, mT != nil
		st.depth++
		ex.jump(fr, fr.block.Succs[0])
	case canT:
		st.addPC(c)
		ex.jump(fr, fr.block.Succs[0])
	case canF:
		st.addPC(mkNot(c))
		ex.jump(fr, fr.block.Succs[1])
	default:
		ex.endPath(st, "infeasible", "both branch sides infeasible at "+ex.sitePos(fr, x))
	}
}

// forkAlts continues st along each feasible alternative; the instruction's
// value register receives alt.val and ip advances.
func (ex *Exec) forkAlts(st *State, fr *Frame, dst ssa.Value, alts []Alt) {
	type feas struct {
		a Alt
		m Model
	}
	var ok []feas
	for _, a := range alts {
		if isFalse(a.cond) {
			continue
		}
		if isTrue(a.cond) {
			ok = append(ok, feas{a, st.model})
			continue
		}
		can, m := ex.feasibleOne(st, a.cond)
		if can {
			ok = append(ok, feas{a, m})
		}
	}
	if len(ok) == 0 {
		ex.endPath(st, "infeasible", "no feasible alternative at "+ex.where(st))
		return
	}
	if len(ok) > 1 {
		ex.forks += len(ok) - 1
	}
	thIdx := st.cur
	depthOf := len(st.thread().frames) - 1
	for i := len(ok) - 1; i >= 0; i-- {
		var s2 *State
		if i == 0 {
			s2 = st
		} else {
			s2 = st.fork()
		}
		f2 := s2.threads[thIdx].frames[depthOf]
		s2.addPC(ok[i].a.cond)
		if !isTrue(ok[i].a.cond) {
			s2.model, s2.modelOK = ok[i].m, ok[i].m != nil
			s2.depth++
		}
		if ok[i].a.defs != nil {
			for _, d := range ok[i].a.defs {
				s2.addPC(d)
			}
			if s2.modelOK && ok[i].a.fix != nil {
				s2.model = ok[i].a.fix(s2.model)
			} else {
				s2.modelOK = false
			}
		}
		if ok[i].a.then != nil {
			ok[i].a.then(ex, s2, f2)
		} else {
			if dst != nil {
				f2.regs[f2.info.index[dst]] = ok[i].a.val
			}
			f2.ip++
		}
		if i != 0 {
			ex.work = append(ex.work, s2)
		}
	}
}

// concretize enumerates the feasible values of t (at most max); ok=false if more.
func (ex *Exec) concretize(st *State, t *Term, max int) ([]uint64, bool) {
	if t.IsConst() {
		return []uint64{t.val}, true
	}
	var vals []uint64
	var excl []*Term
	for len(vals) <= max {
		cond := mkAnd(excl...)
		can, m := ex.feasibleOne(st, cond)
		if !can {
			sort.Slice(vals, func(i, j int) bool { return vals[i] < vals[j] })
			return vals, true
		}
		if m == nil {
			return nil, false
		}
		v, okEval := evalTerm(t, m)
		if !okEval {
			return nil, false
		}
		vals = append(vals, v)
		excl = append(excl, mkNe(t, mkBV(t.sort.Bits, v)))
	}
	return nil, false
}
