package main

import (
	"fmt"
	"go/types"
	"os"
	"path/filepath"
	"sort"
	"strings"
	"time"

	"golang.org/x/tools/go/packages"
	"golang.org/x/tools/go/ssa"
	"golang.org/x/tools/go/ssa/ssautil"
)

// repoDir: the tree under test.  Always /repo for the registered commands; VERIF_REPO lets a
// background sweep run against a snapshot of /repo while /repo itself is being patched by
// seeded-change runs.
var repoDir = func() string {
	if d := os.Getenv("VERIF_REPO"); d != "" {
		return d
	}
	return "/repo"
}()
const modPath = "github.com/gdamore/tcell/v2"

var verifDir = func() string {
	if d := os.Getenv("VERIF_DIR"); d != "" {
		return d
	}
	return "/verif"
}()

// harness package directory name -> directory inside /repo
var harnessDirs = map[string]string{
	"tcell":    "",
	"terminfo": "terminfo",
	"views":    "views",
	"encoding": "encoding",
}

// overlayFiles builds the overlay map: harness sources + vsym declarations.
// native=true substitutes the native vsym implementation (for replay builds).
func overlayFiles(native bool) (map[string][]byte, error) {
	ov := map[string][]byte{}
	declName := "vsym_decl.go.txt"
	if native {
		declName = "vsym_native.go.txt"
	}
	decl, err := os.ReadFile(filepath.Join(verifDir, "harness", declName))
	if err != nil {
		return nil, err
	}
	for pkg, dir := range harnessDirs {
		hdir := filepath.Join(verifDir, "harness", pkg)
		ents, err := os.ReadDir(hdir)
		if err != nil {
			continue
		}
		n := 0
		for _, e := range ents {
			if !strings.HasSuffix(e.Name(), ".go") {
				continue
			}
			src, err := os.ReadFile(filepath.Join(hdir, e.Name()))
			if err != nil {
				return nil, err
			}
			ov[filepath.Join(repoDir, dir, "zz_verif_"+e.Name())] = src
			n++
		}
		if n > 0 {
			d := strings.Replace(string(decl), "package PKG", "package "+pkg, 1)
			ov[filepath.Join(repoDir, dir, "zz_verif_vsym.go")] = []byte(d)
		}
	}
	return ov, nil
}

func goEnv(extra ...string) []string {
	env := os.Environ()
	env = append(env, "GOFLAGS=-mod=mod", "GOPROXY=off", "GOSUMDB=off", "GOTOOLCHAIN=local")
	return append(env, extra...)
}

type LoadResult struct {
	P        *Program
	Errors   []string
	LoadSecs float64
}

func loadProgram(goos, goarch string, patterns []string) (*LoadResult, error) {
	t0 := time.Now()
	ov, err := overlayFiles(false)
	if err != nil {
		return nil, err
	}
	var extra []string
	if goos != "" {
		extra = append(extra, "GOOS="+goos, "GOARCH="+goarch)
	}
	cfg := &packages.Config{
		Mode:       packages.LoadAllSyntax,
		Dir:        repoDir,
		Env:        goEnv(extra...),
		Overlay:    ov,
		BuildFlags: []string{"-tags=verif"},
	}
	pkgs, err := packages.Load(cfg, patterns...)
	if err != nil {
		return nil, err
	}
	res := &LoadResult{}
	packages.Visit(pkgs, nil, func(p *packages.Package) {
		for _, e := range p.Errors {
			res.Errors = append(res.Errors, e.Error())
		}
	})
	if len(res.Errors) > 0 {
		res.LoadSecs = time.Since(t0).Seconds()
		return res, nil
	}
	prog, _ := ssautil.AllPackages(pkgs, ssa.InstantiateGenerics)
	prog.Build()
	P := &Program{prog: prog, pkgs: map[string]*ssa.Package{}, globals: map[*ssa.Global]int{}}
	for _, p := range prog.AllPackages() {
		P.pkgs[p.Pkg.Path()] = p
	}
	res.P = P
	res.LoadSecs = time.Since(t0).Seconds()
	return res, nil
}

// ------------------------------------------------------------------ initial heap

// Packages whose init is executed (concretely) by the engine.  Everything
// else keeps zero-valued globals and is reached only through intrinsics.
func initAllowed(path string) bool {
	switch path {
	case "io", "unicode", "unicode/utf8", "unicode/utf16", "strconv", "strings", "bytes",
		"encoding/base64", "encoding/binary", "sort", "math", "math/bits", "image/color", "bufio",
		"slices", "cmp", "maps", "internal/bytealg", "internal/stringslite", "html", "encoding", "iter",
		"internal/byteorder", "internal/itoa", "path", "path/filepath", "encoding/hex", "text/tabwriter":
		return true
	}
	if strings.HasPrefix(path, "golang.org/x/sys") || strings.HasPrefix(path, "golang.org/x/term") {
		return false
	}
	if strings.HasPrefix(path, "golang.org/x/text") || strings.HasPrefix(path, "github.com/") {
		return true
	}
	return false
}

func (ex *Exec) buildInitialHeap(roots []string) (*State, []string) {
	P := ex.P
	st := &State{id: newStateID(), symCount: map[string]int{}, modelOK: true, model: Model{}}
	st.heap.n = 1
	var gs []*ssa.Global
	for _, p := range P.prog.AllPackages() {
		for _, m := range p.Members {
			if g, ok := m.(*ssa.Global); ok {
				gs = append(gs, g)
			}
		}
	}
	sort.Slice(gs, func(i, j int) bool {
		a, b := gs[i].Pkg.Pkg.Path(), gs[j].Pkg.Pkg.Path()
		if a != b {
			return a < b
		}
		return gs[i].Name() < gs[j].Name()
	})
	for _, g := range gs {
		var v Value
		func() {
			defer func() {
				if r := recover(); r != nil {
					v = nilPtr // unsupported global type: never touched by executed code
				}
			}()
			v = zeroVal(g.Type().Underlying().(*types.Pointer).Elem())
		}()
		P.globals[g] = st.alloc(v)
	}
	// run package initialisers (concretely)
	var log []string
	ex.lenient = true
	done := map[string]bool{}
	for _, r := range roots {
		pkg := P.pkgs[r]
		if pkg == nil {
			log = append(log, "root package not loaded: "+r)
			continue
		}
		ex.runInit(st, pkg, done, &log)
	}
	ex.lenient = false
	return st, log
}

// runInit executes pkg.init in st; nested calls to other packages' init are
// intercepted in invoke() via ex.initDone.
func (ex *Exec) runInit(st *State, pkg *ssa.Package, done map[string]bool, log *[]string) {
	ex.initDone = done
	ex.initLog = log
	fn := pkg.Func("init")
	if fn == nil {
		return
	}
	st.threads = []*Thread{{name: "init"}}
	st.cur = 0
	st.status = ""
	ex.pushCall(st, fn, nil, nil, nil)
	ex.deadline = time.Now().Add(10 * time.Minute)
	ex.runState(st)
	if st.status != "done" {
		*log = append(*log, fmt.Sprintf("init of %s ended with %s: %s", pkg.Pkg.Path(), st.status, st.detail))
	}
	if len(ex.work) > 0 {
		*log = append(*log, fmt.Sprintf("init of %s forked (%d extra states dropped)", pkg.Pkg.Path(), len(ex.work)))
		ex.work = nil
	}
	st.status = ""
}
