package main

// One long-lived solver process per worker (z3 -in / z3-new -in / cvc5 --incremental).
// Shared sub-terms are emitted once as zero-arity define-fun at base level;
// queries are push/assert/check-sat/[get-value]/pop.  Any "(error" or
// "unknown" makes the query inconclusive.

import (
	"bufio"
	"fmt"
	"io"
	"os"
	"os/exec"
	"strconv"
	"strings"
	"time"
)

type SolverStats struct {
	Queries   int
	Sat       int
	Unsat     int
	Unknown   int
	Errors    int
	Seconds   float64
	Restarts  int
	DefsSent  int
	MaxQueryS float64
}

type Solver struct {
	kind    string // z3 | z3-new | cvc5
	cmd     *exec.Cmd
	in      io.WriteCloser
	out     *bufio.Reader
	sent    map[int32]bool
	declUF  map[string]bool
	nDefs   int
	stats   SolverStats
	timeout int // ms per check-sat
	log     io.Writer
	corpus  io.Writer // optional: every query as standalone script fragment
	dead    bool
}

func NewSolver(kind string, timeoutMs int) (*Solver, error) {
	s := &Solver{kind: kind, timeout: timeoutMs}
	if err := s.start(); err != nil {
		return nil, err
	}
	return s, nil
}

func (s *Solver) start() error {
	var cmd *exec.Cmd
	switch s.kind {
	case "z3":
		cmd = exec.Command("/usr/bin/z3", "-in")
	case "z3-new":
		cmd = exec.Command("z3-new", "-in")
	case "cvc5":
		cmd = exec.Command("cvc5", "--incremental", "--produce-models", fmt.Sprintf("--tlimit-per=%d", s.timeout), "--fp-exp")
	default:
		return fmt.Errorf("unknown solver %q", s.kind)
	}
	in, err := cmd.StdinPipe()
	if err != nil {
		return err
	}
	out, err := cmd.StdoutPipe()
	if err != nil {
		return err
	}
	cmd.Stderr = nil
	if err := cmd.Start(); err != nil {
		return err
	}
	s.cmd, s.in, s.out = cmd, in, bufio.NewReaderSize(out, 1<<16)
	s.sent = make(map[int32]bool)
	s.declUF = make(map[string]bool)
	s.nDefs = 0
	s.dead = false
	if p := os.Getenv("GOSYM_SOLVERLOG"); p != "" && s.log == nil {
		f, err := os.Create(fmt.Sprintf("%s.%d", p, os.Getpid()))
		if err == nil {
			s.log = f
		}
	}
	if s.kind == "cvc5" {
		s.send("(set-logic ALL)\n")
	} else {
		s.send("(set-option :produce-models true)\n")
		s.send(fmt.Sprintf("(set-option :timeout %d)\n", s.timeout))
	}
	return nil
}

func (s *Solver) Close() {
	if s.cmd != nil {
		s.in.Close()
		s.cmd.Process.Kill()
		s.cmd.Wait()
		s.cmd = nil
	}
}

func (s *Solver) restart() {
	s.Close()
	s.stats.Restarts++
	if err := s.start(); err != nil {
		s.dead = true
	}
}

func (s *Solver) send(str string) {
	if s.log != nil {
		io.WriteString(s.log, str)
	}
	if _, err := io.WriteString(s.in, str); err != nil {
		s.dead = true
	}
}

func bvLit(bits int, v uint64) string {
	v &= mask(bits)
	if bits%4 == 0 {
		return fmt.Sprintf("#x%0*x", bits/4, v)
	}
	return fmt.Sprintf("#b%0*b", bits, v)
}

func fpLit(bitsV uint64) string {
	sign := bitsV >> 63
	exp := (bitsV >> 52) & 0x7ff
	man := bitsV & ((1 << 52) - 1)
	return fmt.Sprintf("(fp #b%b #b%011b #b%052b)", sign, exp, man)
}

// SMT names carry the sort: the same harness input name can have different
// widths on different paths (one solver process serves them all).
func smtVarName(t *Term) string {
	switch t.sort.K {
	case KBool:
		return "|" + t.name + "~b|"
	case KFP:
		return "|" + t.name + "~f|"
	}
	return "|" + t.name + "~" + strconv.Itoa(t.sort.Bits) + "|"
}

// ref returns the SMT-LIB reference for t, emitting definitions as needed.
func (s *Solver) ref(t *Term, sb *strings.Builder) string {
	switch t.op {
	case OpConst:
		switch t.sort.K {
		case KBool:
			if t.val != 0 {
				return "true"
			}
			return "false"
		case KBV:
			return bvLit(t.sort.Bits, t.val)
		default:
			return fpLit(t.val)
		}
	case OpVar:
		if !s.sent[t.id] {
			s.sent[t.id] = true
			fmt.Fprintf(sb, "(declare-const %s %s)\n", smtVarName(t), t.sort.smt())
		}
		return smtVarName(t)
	}
	name := "t" + strconv.Itoa(int(t.id))
	if s.sent[t.id] {
		return name
	}
	// iterative post-order to avoid deep recursion on long chains
	type item struct {
		t    *Term
		done bool
	}
	stack := []item{{t, false}}
	for len(stack) > 0 {
		it := stack[len(stack)-1]
		stack = stack[:len(stack)-1]
		u := it.t
		if u.op == OpConst || s.sent[u.id] {
			continue
		}
		if u.op == OpVar {
			s.sent[u.id] = true
			fmt.Fprintf(sb, "(declare-const %s %s)\n", smtVarName(u), u.sort.smt())
			continue
		}
		if !it.done {
			stack = append(stack, item{u, true})
			for _, a := range u.args {
				if a.op != OpConst && !s.sent[a.id] {
					stack = append(stack, item{a, false})
				}
			}
			continue
		}
		s.sent[u.id] = true
		s.nDefs++
		s.stats.DefsSent++
		fmt.Fprintf(sb, "(define-fun t%d () %s %s)\n", u.id, u.sort.smt(), s.body(u, sb))
	}
	return name
}

func (s *Solver) argRef(t *Term) string {
	switch t.op {
	case OpConst:
		switch t.sort.K {
		case KBool:
			if t.val != 0 {
				return "true"
			}
			return "false"
		case KBV:
			return bvLit(t.sort.Bits, t.val)
		default:
			return fpLit(t.val)
		}
	case OpVar:
		return smtVarName(t)
	}
	return "t" + strconv.Itoa(int(t.id))
}

func (s *Solver) body(t *Term, pre *strings.Builder) string {
	var sb strings.Builder
	args := func() {
		for _, a := range t.args {
			sb.WriteByte(' ')
			sb.WriteString(s.argRef(a))
		}
	}
	switch t.op {
	case OpExtract:
		fmt.Fprintf(&sb, "((_ extract %d %d)", t.aux>>8, t.aux&0xff)
		args()
	case OpZext:
		fmt.Fprintf(&sb, "((_ zero_extend %d)", t.sort.Bits-t.args[0].sort.Bits)
		args()
	case OpSext:
		fmt.Fprintf(&sb, "((_ sign_extend %d)", t.sort.Bits-t.args[0].sort.Bits)
		args()
	case OpUF:
		key := t.name
		if !s.declUF[key] {
			s.declUF[key] = true
			var as []string
			for _, a := range t.args {
				as = append(as, a.sort.smt())
			}
			fmt.Fprintf(pre, "(declare-fun |%s| (%s) %s)\n", t.name, strings.Join(as, " "), t.sort.smt())
		}
		if len(t.args) == 0 {
			return "|" + t.name + "|"
		}
		fmt.Fprintf(&sb, "(|%s|", t.name)
		args()
	case OpFFromSBV:
		sb.WriteString("((_ to_fp 11 53) RNE")
		args()
	case OpFFromUBV:
		sb.WriteString("((_ to_fp_unsigned 11 53) RNE")
		args()
	case OpFToSBV:
		fmt.Fprintf(&sb, "((_ fp.to_sbv %d) RTZ", t.sort.Bits)
		args()
	case OpFToUBV:
		fmt.Fprintf(&sb, "((_ fp.to_ubv %d) RTZ", t.sort.Bits)
		args()
	case OpFFromBits:
		sb.WriteString("((_ to_fp 11 53)")
		args()
	default:
		n, ok := opNames[t.op]
		if !ok {
			panic(fmt.Sprintf("no smt name for op %d", t.op))
		}
		sb.WriteString("(")
		sb.WriteString(n)
		args()
	}
	sb.WriteString(")")
	return sb.String()
}

type Result int

const (
	Unsat Result = iota
	Sat
	Unknown
)

func (r Result) String() string { return [...]string{"unsat", "sat", "unknown"}[r] }

// Check decides the conjunction of the given Boolean terms.  wantModel: on sat
// return values of all variables occurring in the terms.
func (s *Solver) Check(conj []*Term, wantModel bool) (Result, Model) {
	if s.dead {
		s.restart()
		if s.dead {
			s.stats.Errors++
			return Unknown, nil
		}
	}
	if s.nDefs > 150000 {
		s.restart()
	}
	t0 := time.Now()
	var sb strings.Builder
	var refs []string
	var vars []int32
	for _, c := range conj {
		if isTrue(c) {
			continue
		}
		refs = append(refs, s.ref(c, &sb))
		if wantModel {
			vars = mergeSorted(vars, c.Vars())
		}
	}
	sb.WriteString("(push 1)\n")
	for _, r := range refs {
		fmt.Fprintf(&sb, "(assert %s)\n", r)
	}
	sb.WriteString("(check-sat)\n")
	s.send(sb.String())
	s.stats.Queries++
	line, err := s.readLine()
	res := Unknown
	var model Model
	if err != nil {
		s.stats.Errors++
		s.dead = true
	} else {
		switch line {
		case "sat":
			res = Sat
		case "unsat":
			res = Unsat
		case "unknown", "timeout":
			res = Unknown
		default:
			// error output: drain what is available by resync below
			s.stats.Errors++
			if s.log != nil {
				fmt.Fprintf(s.log, "; SOLVER SAID: %s\n", line)
			}
			res = Unknown
			s.resync()
		}
	}
	nreal := 0
	for _, id := range vars {
		if id > 0 {
			nreal++
		}
	}
	if nreal == 0 {
		vars = nil
	}
	if res == Sat && wantModel && len(vars) > 0 {
		var q strings.Builder
		q.WriteString("(get-value (")
		for _, id := range vars {
			if id < 0 {
				continue
			}
			v, _ := termByID.Load(id)
			q.WriteString(smtVarName(v.(*Term)))
			q.WriteByte(' ')
		}
		q.WriteString("))\n")
		s.send(q.String())
		txt, err := s.readSexp()
		if err != nil {
			s.stats.Errors++
			s.dead = true
			res = Unknown
		} else {
			model, err = parseModel(txt, vars)
			if err != nil {
				s.stats.Errors++
				res = Unknown
			}
		}
	} else if res == Sat && wantModel {
		model = Model{}
	}
	if !s.dead {
		s.send("(pop 1)\n")
	}
	dt := time.Since(t0).Seconds()
	if s.log != nil {
		fmt.Fprintf(s.log, "; RESULT %v in %.3fs\n", res, dt)
	}
	s.stats.Seconds += dt
	if dt > s.stats.MaxQueryS {
		s.stats.MaxQueryS = dt
	}
	switch res {
	case Sat:
		s.stats.Sat++
	case Unsat:
		s.stats.Unsat++
	default:
		s.stats.Unknown++
	}
	return res, model
}

// resync after an error line: send an echo marker and read until it appears.
func (s *Solver) resync() {
	s.send("(echo \"@@SYNC@@\")\n")
	for i := 0; i < 10000; i++ {
		l, err := s.readLine()
		if err != nil {
			s.dead = true
			return
		}
		if strings.Contains(l, "@@SYNC@@") {
			return
		}
	}
	s.dead = true
}

func (s *Solver) readLine() (string, error) {
	for {
		l, err := s.out.ReadString('\n')
		if err != nil {
			return "", err
		}
		l = strings.TrimSpace(l)
		if l == "" {
			continue
		}
		return l, nil
	}
}

// readSexp reads one balanced s-expression (possibly spanning lines).
func (s *Solver) readSexp() (string, error) {
	var sb strings.Builder
	depth := 0
	started := false
	inBar := false
	for {
		c, err := s.out.ReadByte()
		if err != nil {
			return "", err
		}
		if !started {
			if c == ' ' || c == '\n' || c == '\r' || c == '\t' {
				continue
			}
			started = true
			if c != '(' {
				// an atom line (probably an error string)
				rest, _ := s.out.ReadString('\n')
				return string(c) + rest, nil
			}
		}
		sb.WriteByte(c)
		if c == '|' {
			inBar = !inBar
		}
		if inBar {
			continue
		}
		if c == '(' {
			depth++
		} else if c == ')' {
			depth--
			if depth == 0 {
				return sb.String(), nil
			}
		}
	}
}

// parseModel parses "((|a| #x01) (|b| true) (|f| (fp #b0 #b... #b...)))"
func parseModel(txt string, vars []int32) (Model, error) {
	if strings.HasPrefix(txt, "(error") {
		return nil, fmt.Errorf("solver error: %s", txt)
	}
	m := Model{}
	byName := map[string]*Term{}
	for _, id := range vars {
		if id < 0 {
			continue
		}
		v, _ := termByID.Load(id)
		byName[strings.Trim(smtVarName(v.(*Term)), "|")] = v.(*Term)
	}
	toks := tokenize(txt)
	// grammar: ( ( name value ) ... )
	i := 0
	expect := func(s string) error {
		if i >= len(toks) || toks[i] != s {
			return fmt.Errorf("model parse: expected %q at %d in %q", s, i, txt)
		}
		i++
		return nil
	}
	if err := expect("("); err != nil {
		return nil, err
	}
	for i < len(toks) && toks[i] == "(" {
		i++
		name := toks[i]
		i++
		name = strings.Trim(name, "|")
		v, ni, err := parseValue(toks, i)
		if err != nil {
			return nil, err
		}
		i = ni
		if err := expect(")"); err != nil {
			return nil, err
		}
		if t, ok := byName[name]; ok {
			m[t.id] = v
		}
	}
	return m, nil
}

func parseValue(toks []string, i int) (uint64, int, error) {
	if i >= len(toks) {
		return 0, i, fmt.Errorf("model parse: eof")
	}
	t := toks[i]
	switch {
	case t == "true":
		return 1, i + 1, nil
	case t == "false":
		return 0, i + 1, nil
	case strings.HasPrefix(t, "#x"):
		v, err := strconv.ParseUint(t[2:], 16, 64)
		return v, i + 1, err
	case strings.HasPrefix(t, "#b"):
		v, err := strconv.ParseUint(t[2:], 2, 64)
		return v, i + 1, err
	case t == "(":
		// (fp s e m) | (_ bvN w) | (_ +zero 11 53) | (_ NaN 11 53) ...
		if toks[i+1] == "fp" {
			sv, j, err := parseValue(toks, i+2)
			if err != nil {
				return 0, j, err
			}
			ev, j, err := parseValue(toks, j)
			if err != nil {
				return 0, j, err
			}
			mv, j, err := parseValue(toks, j)
			if err != nil {
				return 0, j, err
			}
			if toks[j] != ")" {
				return 0, j, fmt.Errorf("model parse: fp")
			}
			return sv<<63 | ev<<52 | mv, j + 1, nil
		}
		if toks[i+1] == "_" {
			kind := toks[i+2]
			j := i + 3
			for toks[j] != ")" {
				j++
			}
			switch {
			case strings.HasPrefix(kind, "bv"):
				v, err := strconv.ParseUint(kind[2:], 10, 64)
				return v, j + 1, err
			case kind == "+zero":
				return 0, j + 1, nil
			case kind == "-zero":
				return 1 << 63, j + 1, nil
			case kind == "+oo":
				return 0x7ff0000000000000, j + 1, nil
			case kind == "-oo":
				return 0xfff0000000000000, j + 1, nil
			case kind == "NaN":
				return 0x7ff8000000000001, j + 1, nil
			}
		}
	}
	return 0, i, fmt.Errorf("model parse: unexpected token %q", t)
}

func tokenize(s string) []string {
	var toks []string
	i := 0
	for i < len(s) {
		c := s[i]
		switch {
		case c == ' ' || c == '\n' || c == '\t' || c == '\r':
			i++
		case c == '(' || c == ')':
			toks = append(toks, string(c))
			i++
		case c == '|':
			j := i + 1
			for j < len(s) && s[j] != '|' {
				j++
			}
			toks = append(toks, s[i:j+1])
			i = j + 1
		default:
			j := i
			for j < len(s) && !strings.ContainsRune(" \n\t\r()", rune(s[j])) {
				j++
			}
			toks = append(toks, s[i:j])
			i = j
		}
	}
	return toks
}
