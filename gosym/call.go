package main

import (
	"fmt"
	"go/types"
	"strings"

	"golang.org/x/tools/go/ssa"
)

func (p *Program) lookupFunc(pkgPath, name string) *ssa.Function {
	pkg := p.pkgs[pkgPath]
	if pkg == nil {
		unsup("package %s not loaded", pkgPath)
	}
	fn := pkg.Func(name)
	if fn == nil {
		unsup("function %s.%s not found", pkgPath, name)
	}
	return fn
}

func (p *Program) lookupMethod(t types.Type, name string) *ssa.Function {
	ms := p.prog.MethodSets.MethodSet(t)
	for i := 0; i < ms.Len(); i++ {
		sel := ms.At(i)
		if sel.Obj().Name() == name {
			return p.prog.MethodValue(sel)
		}
	}
	return nil
}

// pushCall pushes a frame for fn on the current thread.
func (ex *Exec) pushCall(st *State, fn *ssa.Function, args []Value, bind []Value, onRet func(ex *Exec, st *State, res Value)) {
	if fn.Blocks == nil {
		unsup("call of external function %s", fn.String())
	}
	th := st.thread()
	if len(th.frames) > 400 {
		unsup("call depth exceeded in %s", fn.String())
	}
	fi := ex.P.info(fn)
	fr := &Frame{fn: fn, info: fi, regs: make([]Value, fi.nregs), block: fn.Blocks[0], prev: -1, onRet: onRet}
	if len(args) != len(fn.Params) {
		panic(fmt.Sprintf("call %s: %d args for %d params", fn, len(args), len(fn.Params)))
	}
	copy(fr.regs, args)
	copy(fr.regs[len(fn.Params):], bind)
	th.frames = append(th.frames, fr)
	ex.fnEntered[fn.String()]++
}

type callTarget struct {
	fn   *ssa.Function
	bi   *ssa.Builtin
	bind []Value
	args []Value
}

func (ex *Exec) resolveCall(st *State, fr *Frame, c *ssa.CallCommon) (callTarget, bool) {
	var ct callTarget
	if c.IsInvoke() {
		recv := ex.get(st, fr, c.Value)
		iv, ok := recv.(IfaceV)
		if !ok {
			panic(fmt.Sprintf("invoke on %T", recv))
		}
		if iv.t == nil {
			ex.rtPanic(st, fr, "invalid memory address or nil pointer dereference (nil interface method call "+c.Method.Name()+")")
			return ct, false
		}
		fn := ex.P.prog.LookupMethod(iv.t, c.Method.Pkg(), c.Method.Name())
		if fn == nil {
			unsup("method %s not found on %v", c.Method.Name(), iv.t)
		}
		ct.fn = fn
		ct.args = append(ct.args, iv.v)
	} else {
		switch f := c.Value.(type) {
		case *ssa.Function:
			ct.fn = f
		case *ssa.Builtin:
			ct.bi = f
		default:
			fv, ok := ex.get(st, fr, c.Value).(*FuncV)
			if !ok || fv.IsNil() {
				ex.rtPanic(st, fr, "invalid memory address or nil pointer dereference (nil func call)")
				return ct, false
			}
			ct.fn, ct.bi, ct.bind = fv.fn, fv.bi, fv.bind
		}
	}
	for _, a := range c.Args {
		ct.args = append(ct.args, ex.get(st, fr, a))
	}
	return ct, true
}

// doCall executes a call instruction (Call; also used for the call parts of Go/Defer).
func (ex *Exec) doCall(st *State, fr *Frame, in ssa.Instruction, c *ssa.CallCommon, dst ssa.Value) {
	ct, ok := ex.resolveCall(st, fr, c)
	if !ok {
		return
	}
	if ct.bi != nil {
		ex.builtin(st, fr, in, c, dst, ct.bi, ct.args)
		return
	}
	ex.invoke(st, fr, dst, ct.fn, ct.args, ct.bind)
}

// invoke calls fn (intrinsic or SSA body) delivering the result to dst of the
// current instruction of fr.
func (ex *Exec) invoke(st *State, fr *Frame, dst ssa.Value, fn *ssa.Function, args []Value, bind []Value) {
	name := fn.String()
	if fn.Blocks == nil && strings.HasPrefix(fn.Name(), "vsym") {
		ex.vsymCall(st, fr, dst, fn, args)
		return
	}
	if intr, ok := intrinsics[name]; ok {
		ex.fnEntered["intrinsic:"+name]++
		intr(ex, st, fr, dst, args)
		return
	}
	if fn.Name() == "init" && fn.Pkg != nil && fn.Pkg.Func("init") == fn && ex.initDone != nil {
		path := fn.Pkg.Pkg.Path()
		if ex.initDone[path] || !initAllowed(path) {
			if !initAllowed(path) && !ex.initDone[path] {
				ex.initDone[path] = true
			}
			ex.ret(fr, dst, nil)
			return
		}
		ex.initDone[path] = true
	}
	if ex.lenient && fn.Pkg != nil {
		switch pp := fn.Pkg.Pkg.Path(); {
		case pp == "internal/reflectlite", pp == "reflect", pp == "internal/abi", pp == "runtime", pp == "unsafe",
			pp == "internal/cpu", pp == "internal/godebug", pp == "os", pp == "syscall", pp == "internal/poll", pp == "time":
			if ex.initLog != nil && len(*ex.initLog) < 200 {
				*ex.initLog = append(*ex.initLog, "lenient: skipped "+name)
			}
			ex.ret(fr, dst, zeroResults(fn))
			return
		}
	}
	if fn.Blocks == nil {
		if ex.lenient {
			if ex.initLog != nil && len(*ex.initLog) < 200 {
				*ex.initLog = append(*ex.initLog, "lenient: skipped external "+name)
			}
			ex.ret(fr, dst, zeroResults(fn))
			return
		}
		// assembly or linkname
		unsup("call of body-less function %s", name)
	}
	ex.pushCall(st, fn, args, bind, nil)
}

// ret stores an intrinsic's result and advances.
func (ex *Exec) ret(fr *Frame, dst ssa.Value, v Value) {
	if dst != nil {
		if v == nil {
			v = TupleV{}
		}
		fr.regs[fr.info.index[dst]] = v
	}
	fr.ip++
}

func (ex *Exec) callDeferred(st *State, fr *Frame, d deferRec, onRet func(ex *Exec, st *State, res Value)) {
	if d.fn.bi != nil {
		// builtin deferred (e.g. defer close(ch), defer delete(...)): rare
		switch d.fn.bi.Name() {
		case "close":
			ex.closeChan(st, fr, d.args[0].(ChanV))
			if st.status == "" {
				onRet(ex, st, nil)
			}
			return
		case "recover":
			onRet(ex, st, nil)
			return
		}
		unsup("deferred builtin %s", d.fn.bi.Name())
	}
	name := d.fn.fn.String()
	if intr, ok := intrinsics[name]; ok {
		// run intrinsic against a scratch frame position: intrinsics advance fr.ip,
		// so compensate.
		ip := fr.ip
		intr(ex, st, fr, nil, d.args)
		if st.status != "" {
			return
		}
		if st.top() == fr && fr.ip == ip+1 {
			fr.ip = ip
			onRet(ex, st, nil)
			return
		}
		if st.top() != fr {
			// intrinsic pushed a frame (e.g. Once.Do); chain the continuation
			top := st.top()
			prev := top.onRet
			top.onRet = func(ex *Exec, s2 *State, res Value) {
				if prev != nil {
					prev(ex, s2, res)
				}
				f2 := s2.top()
				if f2 != nil && f2.ip == ip+1 {
					f2.ip = ip
				}
				onRet(ex, s2, nil)
			}
			return
		}
		unsup("deferred intrinsic %s blocked", name)
	}
	ex.pushCall(st, d.fn.fn, d.args, d.fn.bind, onRet)
}

func (ex *Exec) doDefer(st *State, fr *Frame, x *ssa.Defer) {
	ct, ok := ex.resolveCall(st, fr, &x.Call)
	if !ok {
		return
	}
	fr.defers = append(fr.defers, deferRec{fn: &FuncV{fn: ct.fn, bi: ct.bi, bind: ct.bind}, args: ct.args})
	fr.ip++
}

func (ex *Exec) doGo(st *State, fr *Frame, x *ssa.Go) {
	ct, ok := ex.resolveCall(st, fr, &x.Call)
	if !ok {
		return
	}
	if ct.bi != nil {
		unsup("go builtin")
	}
	th := &Thread{name: fmt.Sprintf("go#%d:%s", len(st.threads), ct.fn.Name())}
	st.threads = append(st.threads, th)
	cur := st.cur
	if ex.hbOn {
		// the go statement happens before the new goroutine's first action
		pv := st.hbVC(cur)
		th.vc = vcTick(pv, len(st.threads)-1)
		st.threads[cur].vc = vcTick(pv, cur)
	}
	st.cur = len(st.threads) - 1
	if _, isIntr := intrinsics[ct.fn.String()]; isIntr || ct.fn.Blocks == nil {
		unsup("go of intrinsic/external %s", ct.fn)
	}
	ex.pushCall(st, ct.fn, ct.args, ct.bind, func(ex *Exec, s2 *State, res Value) {})
	st.cur = cur
	fr.ip++
}

// ------------------------------------------------------------------ builtins

func (ex *Exec) builtin(st *State, fr *Frame, in ssa.Instruction, c *ssa.CallCommon, dst ssa.Value, bi *ssa.Builtin, args []Value) {
	switch bi.Name() {
	case "len":
		var n int
		switch x := args[0].(type) {
		case *StrV:
			n = x.Len()
		case SliceV:
			n = x.len
		case MapV:
			if x.obj != 0 {
				n = len(st.mapObj(x).keys)
			}
		case ChanV:
			if x.obj != 0 {
				n = len(st.chanObj(x).buf)
			}
		case *ArrayV:
			n = len(x.e)
		case Ptr:
			n = int(c.Args[0].Type().Underlying().(*types.Pointer).Elem().Underlying().(*types.Array).Len())
		default:
			unsup("len of %T", args[0])
		}
		ex.ret(fr, dst, mkBV(64, uint64(n)))
	case "cap":
		var n int
		switch x := args[0].(type) {
		case SliceV:
			n = x.cap
		case ChanV:
			if x.obj != 0 {
				n = st.chanObj(x).cap
			}
		case *ArrayV:
			n = len(x.e)
		case Ptr:
			n = int(c.Args[0].Type().Underlying().(*types.Pointer).Elem().Underlying().(*types.Array).Len())
		default:
			unsup("cap of %T", args[0])
		}
		ex.ret(fr, dst, mkBV(64, uint64(n)))
	case "append":
		ex.ret(fr, dst, ex.appendSlice(st, args[0].(SliceV), args[1]))
	case "copy":
		d := args[0].(SliceV)
		var src []Value
		switch s := args[1].(type) {
		case SliceV:
			src = append([]Value(nil), st.sliceVals(s)...)
			if ex.hbOn && s.len > 0 && d.len > 0 {
				ex.hbAccess(st, fr, s.arr, false)
			}
		case *StrV:
			for _, b := range s.Bytes() {
				src = append(src, b)
			}
		}
		n := len(src)
		if d.len < n {
			n = d.len
		}
		if ex.hbOn && n > 0 {
			ex.hbAccess(st, fr, d.arr, true)
		}
		for i := 0; i < n; i++ {
			st.store(st.sliceElem(d, i), src[i])
		}
		ex.ret(fr, dst, mkBV(64, uint64(n)))
	case "delete":
		ex.mapDelete(st, fr, args[0].(MapV), args[1])
	case "close":
		ex.closeChan(st, fr, args[0].(ChanV))
		if st.status == "" && st.top() == fr {
			ex.ret(fr, dst, nil)
		}
	case "panic":
		ex.goPanic(st, fr, "panic: "+valString(args[0]), args[0], false)
	case "recover":
		th := st.thread()
		if th.panicV != nil {
			v := th.panicV.val
			if _, ok := v.(IfaceV); !ok {
				v = IfaceV{t: types.Typ[types.String], v: mkStr(th.panicV.msg)}
			}
			th.panicV = nil
			ex.ret(fr, dst, v)
		} else {
			ex.ret(fr, dst, IfaceV{})
		}
	case "print", "println":
		ex.ret(fr, dst, nil)
	case "min", "max":
		a := args[0].(*Term)
		_, signed, _ := typeIntBits(c.Args[0].Type())
		for _, b0 := range args[1:] {
			b := b0.(*Term)
			var lt *Term
			if a.sort.K == KFP {
				unsup("min/max on floats")
			}
			if signed {
				lt = mkCmp(OpSlt, a, b)
			} else {
				lt = mkCmp(OpUlt, a, b)
			}
			if bi.Name() == "min" {
				a = mkIte(lt, a, b)
			} else {
				a = mkIte(lt, b, a)
			}
		}
		ex.ret(fr, dst, a)
	case "clear":
		switch x := args[0].(type) {
		case MapV:
			if x.obj != 0 {
				mo := st.mapObjW(x)
				mo.keys = nil
				mo.m = map[string]*MapEntry{}
				mo.symKeys = false
			}
		case SliceV:
			et := c.Args[0].Type().Underlying().(*types.Slice).Elem()
			for i := 0; i < x.len; i++ {
				st.store(st.sliceElem(x, i), zeroVal(et))
			}
		}
		ex.ret(fr, dst, nil)
	case "ssa:wrapnilchk":
		p := args[0]
		if pp, ok := p.(Ptr); ok && pp.IsNil() {
			ex.rtPanic(st, fr, "value method called using nil pointer")
			return
		}
		ex.ret(fr, dst, p)
	case "String": // unsafe.String
		unsup("unsafe.String")
	default:
		unsup("builtin %s", bi.Name())
	}
}

func (ex *Exec) appendSlice(st *State, s SliceV, more Value) SliceV {
	var add []Value
	switch m := more.(type) {
	case SliceV:
		add = st.sliceVals(m)
		if ex.hbOn && m.len > 0 {
			ex.hbAccessTop(st, m.arr, false)
		}
	case *StrV:
		for _, b := range m.Bytes() {
			add = append(add, b)
		}
	default:
		panic(fmt.Sprintf("append of %T", more))
	}
	if len(add) == 0 {
		return s
	}
	if ex.hbOn && !s.IsNil() {
		ex.hbAccessTop(st, s.arr, s.len+len(add) <= s.cap)
	}
	add = append([]Value(nil), add...)
	for i := range add {
		add[i] = copyVal(add[i])
	}
	if !s.IsNil() && s.len+len(add) <= s.cap {
		for i, v := range add {
			st.store(s.arr.Elem(s.off+s.len+i), v)
		}
		return SliceV{arr: s.arr, off: s.off, len: s.len + len(add), cap: s.cap}
	}
	// grow: Go's growth policy is unspecified; use 2x (>= needed)
	need := s.len + len(add)
	nc := s.cap * 2
	if nc < need {
		nc = need
	}
	if nc < 4 {
		nc = need
	}
	elems := make([]Value, nc)
	old := st.sliceVals(s)
	for i, v := range old {
		elems[i] = copyVal(v)
	}
	copy(elems[s.len:], add)
	var z Value
	for i := need; i < nc; i++ {
		if z == nil {
			if len(add) > 0 {
				z = zeroLike(add[0])
			}
		}
		elems[i] = copyVal(z)
	}
	p := st.newArray(elems)
	return SliceV{arr: p, off: 0, len: need, cap: nc}
}

// zeroLike produces a zero value shaped like v (used to pad grown slices)
func zeroLike(v Value) Value {
	switch x := v.(type) {
	case *Term:
		switch x.sort.K {
		case KBool:
			return tFalse
		case KFP:
			return mkFP(0)
		}
		return mkBV(x.sort.Bits, 0)
	case *StrV:
		return emptyStr
	case Ptr, SymPtr:
		return nilPtr
	case SliceV:
		return SliceV{}
	case *StructV:
		n := &StructV{f: make([]Value, len(x.f))}
		for i := range x.f {
			n.f[i] = zeroLike(x.f[i])
		}
		return n
	case *ArrayV:
		n := &ArrayV{e: make([]Value, len(x.e))}
		for i := range x.e {
			n.e[i] = zeroLike(x.e[i])
		}
		return n
	case IfaceV:
		return IfaceV{}
	case MapV:
		return MapV{}
	case ChanV:
		return ChanV{}
	case *FuncV:
		return (*FuncV)(nil)
	}
	panic(fmt.Sprintf("zeroLike %T", v))
}
