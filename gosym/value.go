package main

// Symbolic values.  Scalars (bool, ints, floats) are *Term.  Aggregates held in
// registers are private copies (value semantics); aggregates inside heap
// objects are mutated in place by their owning state only.

import (
	"fmt"
	"go/types"
	"strings"

	"golang.org/x/tools/go/ssa"
)

type Value interface{}

// StrV is an immutable string with concrete length and per-byte terms.
type StrV struct {
	b    []*Term // each BV8
	c    string  // valid iff conc
	conc bool
}

func mkStr(s string) *StrV {
	return &StrV{c: s, conc: true}
}

var emptyStr = mkStr("")

func mkStrBytes(b []*Term) *StrV {
	allc := true
	for _, x := range b {
		if x.op != OpConst {
			allc = false
			break
		}
	}
	if allc {
		bs := make([]byte, len(b))
		for i, x := range b {
			bs[i] = byte(x.val)
		}
		return &StrV{c: string(bs), conc: true}
	}
	return &StrV{b: b}
}

func (s *StrV) Len() int {
	if s.conc {
		return len(s.c)
	}
	return len(s.b)
}

func (s *StrV) At(i int) *Term {
	if s.conc {
		return mkBV(8, uint64(s.c[i]))
	}
	return s.b[i]
}

func (s *StrV) Bytes() []*Term {
	if !s.conc {
		return s.b
	}
	out := make([]*Term, len(s.c))
	for i := 0; i < len(s.c); i++ {
		out[i] = mkBV(8, uint64(s.c[i]))
	}
	return out
}

func (s *StrV) Slice(lo, hi int) *StrV {
	if s.conc {
		return mkStr(s.c[lo:hi])
	}
	return mkStrBytes(s.b[lo:hi])
}

func strConcat(a, b *StrV) *StrV {
	if a.conc && b.conc {
		return mkStr(a.c + b.c)
	}
	if a.Len() == 0 {
		return b
	}
	if b.Len() == 0 {
		return a
	}
	out := make([]*Term, 0, a.Len()+b.Len())
	out = append(out, a.Bytes()...)
	out = append(out, b.Bytes()...)
	return mkStrBytes(out)
}

func strEq(a, b *StrV) *Term {
	if a.Len() != b.Len() {
		return tFalse
	}
	if a.conc && b.conc {
		return mkBool(a.c == b.c)
	}
	cs := make([]*Term, 0, a.Len())
	for i := 0; i < a.Len(); i++ {
		e := mkEq(a.At(i), b.At(i))
		if isFalse(e) {
			return tFalse
		}
		cs = append(cs, e)
	}
	return mkAnd(cs...)
}

func (s *StrV) String() string {
	if s.conc {
		return fmt.Sprintf("%q", s.c)
	}
	var sb strings.Builder
	sb.WriteString("str[")
	for i, x := range s.b {
		if i > 0 {
			sb.WriteString(" ")
		}
		sb.WriteString(x.String())
	}
	sb.WriteString("]")
	return sb.String()
}

// PE is one step of a pointer path: a struct field or an array index
// (concrete).  Symbolic indices are resolved at IndexAddr time.
type PE struct {
	idx int
}

// Ptr points into heap object obj along path.  obj==0 is nil.
type Ptr struct {
	obj  int
	path string // compact encoding of the path: sequence of varints as bytes (comparable)
}

var nilPtr = Ptr{}

func (p Ptr) IsNil() bool { return p.obj == 0 }

func pathAppend(path string, idx int) string {
	// 4-byte big-endian per element keeps it comparable and simple
	return path + string([]byte{byte(idx >> 24), byte(idx >> 16), byte(idx >> 8), byte(idx)})
}

func pathElems(path string) []int {
	n := len(path) / 4
	out := make([]int, n)
	for i := 0; i < n; i++ {
		out[i] = int(path[4*i])<<24 | int(path[4*i+1])<<16 | int(path[4*i+2])<<8 | int(path[4*i+3])
	}
	return out
}

func (p Ptr) Elem(idx int) Ptr { return Ptr{p.obj, pathAppend(p.path, idx)} }

func (p Ptr) String() string {
	if p.obj == 0 {
		return "nil"
	}
	return fmt.Sprintf("&o%d%v", p.obj, pathElems(p.path))
}

// SliceV: arr points at an ArrayV; elements [off, off+len) visible, cap from off.
type SliceV struct {
	arr           Ptr
	off, len, cap int
}

func (s SliceV) IsNil() bool { return s.arr.obj == 0 }

type StructV struct {
	f []Value
}

type ArrayV struct {
	e []Value
}

type IfaceV struct {
	t types.Type // nil = nil interface
	v Value
}

type FuncV struct {
	fn   *ssa.Function
	bind []Value
	bi   *ssa.Builtin
}

func (f *FuncV) IsNil() bool { return f == nil || (f.fn == nil && f.bi == nil) }

type MapV struct{ obj int }  // 0 = nil map
type ChanV struct{ obj int } // 0 = nil chan

type TupleV []Value

// ---- heap-resident mutable objects

type MapEntry struct {
	k Value
	v Value
}

type MapObj struct {
	kt, vt  types.Type
	keys    []string // insertion order (deterministic iteration)
	m       map[string]*MapEntry
	symKeys bool // holds at least one entry whose key is symbolic
}

func (m *MapObj) clone() *MapObj {
	n := &MapObj{kt: m.kt, vt: m.vt, symKeys: m.symKeys}
	n.keys = append([]string(nil), m.keys...)
	n.m = make(map[string]*MapEntry, len(m.m))
	for k, e := range m.m {
		ce := *e
		n.m[k] = &ce
	}
	return n
}

type ChanObj struct {
	et     types.Type
	cap    int
	buf    []Value
	vcs    []VC // hbrace mode: the sender's clock travels with each buffered element
	closed bool
	name   string
}

func (c *ChanObj) clone() *ChanObj {
	n := *c
	n.buf = append([]Value(nil), c.buf...)
	n.vcs = append([]VC(nil), c.vcs...)
	return &n
}

// Iterator for range over map / string
type IterV struct {
	isStr bool
	str   *StrV
	pos   int
	keys  []Value
	mobj  int
}

// ------------------------------------------------------------ deep copy (value semantics)

func copyVal(v Value) Value {
	switch x := v.(type) {
	case *StructV:
		n := &StructV{f: make([]Value, len(x.f))}
		for i, f := range x.f {
			n.f[i] = copyVal(f)
		}
		return n
	case *ArrayV:
		n := &ArrayV{e: make([]Value, len(x.e))}
		for i, f := range x.e {
			n.e[i] = copyVal(f)
		}
		return n
	}
	return v
}

// ------------------------------------------------------------ zero values

func isBasicKind(t types.Type) (types.BasicKind, bool) {
	if b, ok := t.Underlying().(*types.Basic); ok {
		return b.Kind(), true
	}
	return 0, false
}

func intBits(k types.BasicKind) (bitsN int, signed bool, ok bool) {
	switch k {
	case types.Bool, types.UntypedBool:
		return 0, false, false
	case types.Int, types.Int64, types.UntypedInt:
		return 64, true, true
	case types.Int8:
		return 8, true, true
	case types.Int16:
		return 16, true, true
	case types.Int32, types.UntypedRune:
		return 32, true, true
	case types.Uint, types.Uint64, types.Uintptr:
		return 64, false, true
	case types.Uint8:
		return 8, false, true
	case types.Uint16:
		return 16, false, true
	case types.Uint32:
		return 32, false, true
	}
	return 0, false, false
}

func typeIntBits(t types.Type) (int, bool, bool) {
	if k, ok := isBasicKind(t); ok {
		return intBits(k)
	}
	return 0, false, false
}

func zeroVal(t types.Type) Value {
	switch u := t.Underlying().(type) {
	case *types.Basic:
		switch u.Kind() {
		case types.Bool, types.UntypedBool:
			return tFalse
		case types.String, types.UntypedString:
			return emptyStr
		case types.Float64, types.Float32, types.UntypedFloat:
			return mkFP(0)
		case types.UnsafePointer:
			return nilPtr
		case types.UntypedNil:
			return nilPtr
		}
		if n, _, ok := intBits(u.Kind()); ok {
			return mkBV(n, 0)
		}
		panic(fmt.Sprintf("zeroVal: basic %v", u))
	case *types.Pointer:
		return nilPtr
	case *types.Slice:
		return SliceV{}
	case *types.Struct:
		s := &StructV{f: make([]Value, u.NumFields())}
		for i := range s.f {
			s.f[i] = zeroVal(u.Field(i).Type())
		}
		return s
	case *types.Array:
		n := int(u.Len())
		a := &ArrayV{e: make([]Value, n)}
		if n > 0 {
			z := zeroVal(u.Elem())
			switch z.(type) {
			case *StructV, *ArrayV:
				for i := range a.e {
					a.e[i] = copyVal(z)
				}
			default:
				for i := range a.e {
					a.e[i] = z
				}
			}
		}
		return a
	case *types.Interface:
		return IfaceV{}
	case *types.Map:
		return MapV{}
	case *types.Chan:
		return ChanV{}
	case *types.Signature:
		return (*FuncV)(nil)
	case *types.Tuple:
		tv := make(TupleV, u.Len())
		for i := range tv {
			tv[i] = zeroVal(u.At(i).Type())
		}
		return tv
	}
	panic(fmt.Sprintf("zeroVal: %T %v", t.Underlying(), t))
}

// ------------------------------------------------------------ equality as a term

type unsupported struct{ msg string }

func (u unsupported) Error() string { return "unsupported: " + u.msg }

func unsup(format string, a ...interface{}) {
	panic(unsupported{fmt.Sprintf(format, a...)})
}

func valEq(a, b Value) *Term {
	switch x := a.(type) {
	case *Term:
		y := b.(*Term)
		if x.sort.K == KFP {
			return mkFCmp(OpFEq, x, y)
		}
		return mkEq(x, y)
	case *StrV:
		return strEq(x, b.(*StrV))
	case Ptr:
		y, ok := b.(Ptr)
		if !ok {
			unsup("ptr compare with %T", b)
		}
		return mkBool(x == y)
	case *StructV:
		y := b.(*StructV)
		cs := make([]*Term, len(x.f))
		for i := range x.f {
			cs[i] = valEq(x.f[i], y.f[i])
		}
		return mkAnd(cs...)
	case *ArrayV:
		y := b.(*ArrayV)
		cs := make([]*Term, len(x.e))
		for i := range x.e {
			cs[i] = valEq(x.e[i], y.e[i])
		}
		return mkAnd(cs...)
	case IfaceV:
		y, ok := b.(IfaceV)
		if !ok {
			unsup("iface compare with %T", b)
		}
		if x.t == nil || y.t == nil {
			return mkBool(x.t == nil && y.t == nil)
		}
		if !types.Identical(x.t, y.t) {
			return tFalse
		}
		return valEq(x.v, y.v)
	case MapV:
		return mkBool(x.obj == b.(MapV).obj)
	case ChanV:
		return mkBool(x.obj == b.(ChanV).obj)
	case *FuncV:
		y, _ := b.(*FuncV)
		if x.IsNil() || y.IsNil() {
			return mkBool(x.IsNil() && y.IsNil())
		}
		unsup("func compare")
	case SliceV:
		y := b.(SliceV)
		if x.IsNil() || y.IsNil() {
			return mkBool(x.IsNil() && y.IsNil())
		}
		unsup("slice compare")
	}
	unsup("valEq %T", a)
	return nil
}

// mergeVal builds ite(c, a, b) structurally; ok=false if the shapes differ.
func mergeVal(c *Term, a, b Value) (Value, bool) {
	switch x := a.(type) {
	case *Term:
		y, ok := b.(*Term)
		if !ok || x.sort != y.sort {
			return nil, false
		}
		if x.sort.K == KFP && x != y {
			// ite over FP is fine in SMT
			return intern(OpIte, SFP, 0, 0, "", c, x, y), true
		}
		return mkIte(c, x, y), true
	case *StrV:
		y, ok := b.(*StrV)
		if !ok || x.Len() != y.Len() {
			return nil, false
		}
		if x == y {
			return x, true
		}
		out := make([]*Term, x.Len())
		for i := range out {
			out[i] = mkIte(c, x.At(i), y.At(i))
		}
		return mkStrBytes(out), true
	case Ptr:
		if y, ok := b.(Ptr); ok && x == y {
			return x, true
		}
		return nil, false
	case SliceV:
		if y, ok := b.(SliceV); ok && x == y {
			return x, true
		}
		return nil, false
	case MapV:
		if y, ok := b.(MapV); ok && x == y {
			return x, true
		}
		return nil, false
	case ChanV:
		if y, ok := b.(ChanV); ok && x == y {
			return x, true
		}
		return nil, false
	case *StructV:
		y, ok := b.(*StructV)
		if !ok || len(x.f) != len(y.f) {
			return nil, false
		}
		n := &StructV{f: make([]Value, len(x.f))}
		for i := range x.f {
			m, ok := mergeVal(c, x.f[i], y.f[i])
			if !ok {
				return nil, false
			}
			n.f[i] = m
		}
		return n, true
	case *ArrayV:
		y, ok := b.(*ArrayV)
		if !ok || len(x.e) != len(y.e) {
			return nil, false
		}
		n := &ArrayV{e: make([]Value, len(x.e))}
		for i := range x.e {
			m, ok := mergeVal(c, x.e[i], y.e[i])
			if !ok {
				return nil, false
			}
			n.e[i] = m
		}
		return n, true
	case IfaceV:
		y, ok := b.(IfaceV)
		if !ok {
			return nil, false
		}
		if x.t == nil && y.t == nil {
			return x, true
		}
		if x.t == nil || y.t == nil || !types.Identical(x.t, y.t) {
			return nil, false
		}
		m, ok := mergeVal(c, x.v, y.v)
		if !ok {
			return nil, false
		}
		return IfaceV{x.t, m}, true
	case *FuncV:
		if y, ok := b.(*FuncV); ok && x == y {
			return x, true
		}
		return nil, false
	}
	return nil, false
}

func valString(v Value) string {
	switch x := v.(type) {
	case nil:
		return "<nil>"
	case *Term:
		return x.String()
	case *StrV:
		return x.String()
	case Ptr:
		return x.String()
	case SliceV:
		if x.IsNil() {
			return "[]nil"
		}
		return fmt.Sprintf("slice(%v,%d,%d,%d)", x.arr, x.off, x.len, x.cap)
	case *StructV:
		var sb strings.Builder
		sb.WriteString("{")
		for i, f := range x.f {
			if i > 0 {
				sb.WriteString(", ")
			}
			if i > 12 {
				sb.WriteString("...")
				break
			}
			sb.WriteString(valString(f))
		}
		sb.WriteString("}")
		return sb.String()
	case *ArrayV:
		return fmt.Sprintf("array[%d]", len(x.e))
	case IfaceV:
		if x.t == nil {
			return "iface(nil)"
		}
		return fmt.Sprintf("iface(%v: %s)", x.t, valString(x.v))
	case *FuncV:
		if x.IsNil() {
			return "func(nil)"
		}
		if x.fn != nil {
			return "func " + x.fn.String()
		}
		return "builtin " + x.bi.Name()
	case MapV:
		return fmt.Sprintf("map#%d", x.obj)
	case ChanV:
		return fmt.Sprintf("chan#%d", x.obj)
	case TupleV:
		var parts []string
		for _, e := range x {
			parts = append(parts, valString(e))
		}
		return "(" + strings.Join(parts, ", ") + ")"
	}
	return fmt.Sprintf("%T", v)
}
