package main

import (
	"encoding/json"
	"flag"
	"fmt"
	"os"
	"path/filepath"
	"sort"
	"strconv"
	"strings"
	"sync"
	"sync/atomic"
	"time"

	"golang.org/x/tools/go/ssa"
)

// ------------------------------------------------------------------ registry

type HarnessSpec struct {
	Name     string         `json:"name"`   // Go function name, e.g. H16_conv
	Pkg      string         `json:"pkg"`    // tcell | terminfo | views
	Params   map[string]int `json:"params"` // tier-independent
	Quick    map[string]int `json:"quick"`  // overrides for quick
	Thorough map[string]int `json:"thorough"`
	Split    []SplitDim     `json:"split"` // vsymChoice names fixed per job (cartesian product), to use all cores
	Unwind   int            `json:"unwind"`
	MaxPaths int            `json:"max_paths"`
	MaxSecs  float64        `json:"max_secs"`
	// what counts as a violation besides failed assertions
	PanicIsBug   bool   `json:"panic_is_bug"`
	BlockedIsBug bool   `json:"blocked_is_bug"`
	Tiers        string `json:"tiers"` // "" both, "thorough" only thorough
	Solver       string `json:"solver"`
	Note         string `json:"note"`
	GOOS         string `json:"goos"`
	// name of an uninterpreted function the harness leaves abstract: a counterexample whose
	// model of that function disagrees with the real one does not replay; further members of
	// its group are then tried (up to 12) and only a replayed one is reported
	Abstracts string `json:"abstracts"`
}

type SplitDim struct {
	Name string         `json:"name"`
	N    map[string]int `json:"n"` // tier -> number of values; falls back to "quick"
}

type PropSpec struct {
	LockSet         string        `json:"lockset"` // name of the native race-replay harness (C10)
	BuildIsProperty bool          `json:"build_is_property"`
	ID              string        `json:"id"`
	Harnesses       []HarnessSpec `json:"harnesses"`
	Bounds          []string      `json:"bounds"`
	Outside         []string      `json:"outside"`
	Assumptions     []string      `json:"assumptions"`
}

func loadRegistry() (map[string]*PropSpec, error) {
	b, err := os.ReadFile(filepath.Join(verifDir, "harness", "registry.json"))
	if err != nil {
		return nil, err
	}
	var props []*PropSpec
	if err := json.Unmarshal(b, &props); err != nil {
		return nil, fmt.Errorf("registry.json: %v", err)
	}
	m := map[string]*PropSpec{}
	for _, p := range props {
		m[p.ID] = p
	}
	return m, nil
}

// ------------------------------------------------------------------ jobs

type Job struct {
	Spec   *HarnessSpec
	Params map[string]int
	Label  string
}

type JobResult struct {
	Label      string
	Harness    string
	Params     map[string]int
	Paths      int
	PathsByEnd map[string]int
	Branches   int
	Forks      int
	Instrs     int64
	Solver     SolverStats
	Asserts    map[string]*AssertSite
	Violations []*Violation
	Incon      []string
	Samples    []PathSample
	Functions  map[string]int
	Seconds    float64
	ModelHits  int
	BlockSites map[string]int
	Access     map[string]*AccessSummary
	PassModels []PassModel
}

func pkgPathOf(short string) string {
	if short == "tcell" {
		return modPath
	}
	return modPath + "/" + short
}

func newExec(P *Program, solverKind string, timeoutMs int) (*Exec, error) {
	s, err := NewSolver(solverKind, timeoutMs)
	if err != nil {
		return nil, err
	}
	return &Exec{P: P, solver: s, cfg: &RunCfg{}, fnEntered: map[string]int{}, asserts: map[string]*AssertSite{},
		pathsByEnd: map[string]int{}, params: map[string]int{}, blockSites: map[string]int{}, accessAll: map[string]*AccessSummary{}}, nil
}

// ---- work sharing between workers (load balance inside one job)

type stolen struct {
	job int
	st  *State
}

type Pool struct {
	mu      sync.Mutex
	jobs    []Job
	next    int
	shared  []stolen
	idle    int32
	busy    int
	results []*JobResult
	start   []time.Time
}

func (p *Pool) wantWork() bool { return atomic.LoadInt32(&p.idle) > 0 }

func (p *Pool) donate(job int, states []*State) {
	p.mu.Lock()
	for _, s := range states {
		p.shared = append(p.shared, stolen{job, s})
	}
	p.mu.Unlock()
}

func (ex *Exec) resetStats(job Job, verbose int) {
	spec := job.Spec
	ex.cfg = &RunCfg{MaxPaths: spec.MaxPaths, MaxSeconds: spec.MaxSecs, Unwind: spec.Unwind, Verbose: verbose, SampleN: 6}
	if ex.cfg.MaxPaths == 0 {
		ex.cfg.MaxPaths = 400000
	}
	if ex.cfg.MaxSeconds == 0 {
		ex.cfg.MaxSeconds = 600
	}
	if ex.cfg.Unwind == 0 {
		ex.cfg.Unwind = 64
	}
	ex.fnEntered = map[string]int{}
	ex.asserts = map[string]*AssertSite{}
	ex.pathsByEnd = map[string]int{}
	ex.blockSites = map[string]int{}
	ex.accessAll = map[string]*AccessSummary{}
	ex.violations, ex.incon, ex.samples, ex.passModels = nil, nil, nil, nil
	ex.paths, ex.branches, ex.forks, ex.instrs, ex.modelHits = 0, 0, 0, 0, 0
	ex.params = job.Params
	ex.preemptBound = job.Params["preempt"]
	ex.hbOn = job.Params["hbrace"] != 0
	ex.hbRaces = nil
	ex.curHarness = spec.Name
	ex.solver.stats = SolverStats{}
	ex.qcache = nil // term ids are global, but keep the cache per job to bound memory
}

func (ex *Exec) collect(job Job, t0 time.Time) *JobResult {
	res := &JobResult{Label: job.Label, Harness: job.Spec.Name, Params: job.Params}
	res.Paths, res.PathsByEnd, res.Branches, res.Forks, res.Instrs = ex.paths, ex.pathsByEnd, ex.branches, ex.forks, ex.instrs
	res.Solver = ex.solver.stats
	res.Asserts, res.Violations, res.Incon, res.Samples = ex.asserts, ex.violations, ex.incon, ex.samples
	res.Functions = ex.fnEntered
	res.ModelHits = ex.modelHits
	res.BlockSites = ex.blockSites
	res.Access = ex.accessAll
	res.PassModels = ex.passModels
	res.Seconds = time.Since(t0).Seconds()
	return res
}

func mergeResult(dst, src *JobResult) *JobResult {
	if dst == nil {
		return src
	}
	dst.Paths += src.Paths
	dst.Branches += src.Branches
	dst.Forks += src.Forks
	dst.Instrs += src.Instrs
	dst.ModelHits += src.ModelHits
	dst.Seconds += src.Seconds
	for k, v := range src.PathsByEnd {
		dst.PathsByEnd[k] += v
	}
	for k, v := range src.Functions {
		dst.Functions[k] += v
	}
	for k, v := range src.BlockSites {
		dst.BlockSites[k] += v
	}
	for k, a := range src.Asserts {
		t := dst.Asserts[k]
		if t == nil {
			dst.Asserts[k] = a
			continue
		}
		t.Reached += a.Reached
		t.Proved += a.Proved
		t.Trivial += a.Trivial
		t.Failed += a.Failed
	}
	for k, a := range src.Access {
		t := dst.Access[k]
		if t == nil {
			dst.Access[k] = a
			continue
		}
		mergeAccessSummary(t, a)
	}
	ds, ss := &dst.Solver, src.Solver
	ds.Queries += ss.Queries
	ds.Sat += ss.Sat
	ds.Unsat += ss.Unsat
	ds.Unknown += ss.Unknown
	ds.Errors += ss.Errors
	ds.Seconds += ss.Seconds
	ds.DefsSent += ss.DefsSent
	if ss.MaxQueryS > ds.MaxQueryS {
		ds.MaxQueryS = ss.MaxQueryS
	}
	dst.Violations = append(dst.Violations, src.Violations...)
	dst.Incon = append(dst.Incon, src.Incon...)
	if len(dst.Samples) < 12 {
		dst.Samples = append(dst.Samples, src.Samples...)
	}
	if len(dst.PassModels) < 24 {
		dst.PassModels = append(dst.PassModels, src.PassModels...)
	}
	return dst
}

// explore runs the worklist to exhaustion (donating to idle workers).
func (ex *Exec) explore(pool *Pool, jobIdx int, spec *HarnessSpec, started time.Time) {
	ex.deadline = started.Add(time.Duration(ex.cfg.MaxSeconds * float64(time.Second)))
	for len(ex.work) > 0 {
		s := ex.work[len(ex.work)-1]
		ex.work = ex.work[:len(ex.work)-1]
		ex.runState(s)
		ex.finishPath(s, spec)
		if ex.paths >= ex.cfg.MaxPaths {
			ex.inconclusive(fmt.Sprintf("path budget %d exhausted with %d states pending", ex.cfg.MaxPaths, len(ex.work)))
			ex.work = nil
			break
		}
		if time.Now().After(ex.deadline) {
			ex.inconclusive(fmt.Sprintf("time budget %.0fs exhausted with %d states pending", ex.cfg.MaxSeconds, len(ex.work)))
			ex.work = nil
			break
		}
		if pool != nil && len(ex.work) > 1 && pool.wantWork() {
			n := len(ex.work) / 2
			pool.donate(jobIdx, ex.work[:n]) // the oldest states root the largest subtrees
			ex.work = append([]*State(nil), ex.work[n:]...)
		}
	}
}

func (ex *Exec) runJob(init *State, job Job, verbose int) *JobResult {
	return ex.runJobPool(nil, 0, init, job, verbose)
}

func (ex *Exec) runJobPool(pool *Pool, jobIdx int, init *State, job Job, verbose int) *JobResult {
	t0 := time.Now()
	spec := job.Spec
	ex.resetStats(job, verbose)
	pkg := ex.P.pkgs[pkgPathOf(spec.Pkg)]
	var fn *ssa.Function
	if pkg != nil {
		fn = pkg.Func(spec.Name)
	}
	if fn == nil {
		return &JobResult{Label: job.Label, Harness: spec.Name, Params: job.Params, Incon: []string{"harness function not found: " + spec.Pkg + "." + spec.Name}}
	}
	st := &State{id: newStateID(), heap: init.heap.fork(), symCount: map[string]int{}, sideVals: init.sideVals}
	st.threads = []*Thread{{name: "main"}}
	st.cur = 0
	st.model, st.modelOK = Model{}, true
	st.env = map[string]*StrV{"TERM": mkStr("xterm")}
	ex.work = []*State{st}
	func() {
		defer func() {
			if r := recover(); r != nil {
				ex.inconclusive(fmt.Sprintf("engine panic while starting harness: %v", r))
			}
		}()
		ex.pushCall(st, fn, nil, nil, nil)
	}()
	ex.explore(pool, jobIdx, spec, t0)
	return ex.collect(job, t0)
}

func (ex *Exec) finishPath(st *State, spec *HarnessSpec) {
	ex.paths++
	ex.pathsByEnd[st.status]++
	ex.mergeAccess(st)
	switch st.status {
	case "done", "assume-false", "violation", "infeasible", "cut":
	case "panic":
		if spec.PanicIsBug {
			vals, kinds := inputsOf(st, st.model)
			if !st.modelOK {
				// obtain a model of the path condition
				r, m := ex.solver.Check(st.pc, true)
				if r == Sat {
					vals, kinds = inputsOf(st, m)
				}
			}
			ex.violations = append(ex.violations, &Violation{Harness: spec.Name, Msg: st.detail, Inputs: vals, Kinds: kinds,
				Kind: "panic", Notes: st.notes, Choices: st.choices})
		}
	case "blocked", "diverged":
		if spec.BlockedIsBug {
			vals, kinds := inputsOf(st, st.model)
			ex.violations = append(ex.violations, &Violation{Harness: spec.Name, Msg: st.status + ": " + st.detail, Inputs: vals, Kinds: kinds,
				Kind: "blocked", Notes: st.notes, Choices: st.choices})
		}
	default:
		// unsupported, engine-error, unwind, unknown, timeout
		ex.inconclusive(st.status + ": " + st.detail)
	}
	if len(ex.samples) < ex.cfg.SampleN || (st.status != "done" && st.status != "assume-false" && len(ex.samples) < 3*ex.cfg.SampleN) {
		vals, _ := inputsOf(st, st.model)
		ex.samples = append(ex.samples, PathSample{End: st.status + " " + st.detail, Choices: st.choices, Inputs: vals, Notes: st.notes, PCLen: len(st.pc)})
	}
	if st.status == "done" && st.modelOK && len(ex.passModels) < 24 && len(st.inputs) > 0 {
		vals, _ := inputsOf(st, st.model)
		ex.passModels = append(ex.passModels, PassModel{Inputs: vals, Notes: st.notes})
	}
}

// ------------------------------------------------------------------ CLI

func usage() {
	fmt.Fprintln(os.Stderr, `usage:
  gosym check <PROP> <quick|thorough> [-v]      run the property's harnesses, write evidence, replay violations
  gosym run -pkg tcell -harness NAME [-p k=v]... one harness, print result
  gosym replay <dir>                             re-run a stored replay natively
  gosym build-check <goos> <goarch>              type-check /repo for a platform (C19)
  gosym selfcheck                                solver cross-check on the saved corpus`)
	os.Exit(2)
}

func main() {
	if len(os.Args) < 2 {
		usage()
	}
	switch os.Args[1] {
	case "run":
		cmdRun(os.Args[2:])
	case "check":
		os.Exit(cmdCheck(os.Args[2:]))
	case "replay":
		os.Exit(cmdReplay(os.Args[2:]))
	default:
		usage()
	}
}

type kvFlags map[string]int

func (k kvFlags) String() string { return "" }
func (k kvFlags) Set(s string) error {
	i := strings.Index(s, "=")
	if i < 0 {
		return fmt.Errorf("want k=v")
	}
	v, err := strconv.Atoi(s[i+1:])
	if err != nil {
		return err
	}
	k[s[:i]] = v
	return nil
}

var loadPatterns = []string{".", "./terminfo", "./views", "./encoding"}

func cmdRun(args []string) {
	fs := flag.NewFlagSet("run", flag.ExitOnError)
	pkg := fs.String("pkg", "tcell", "harness package")
	name := fs.String("harness", "", "harness function")
	verbose := fs.Int("v", 0, "verbosity")
	unwind := fs.Int("unwind", 64, "symbolic branch bound per frame")
	maxPaths := fs.Int("maxpaths", 200000, "")
	maxSecs := fs.Float64("maxsecs", 600, "")
	solver := fs.String("solver", "z3-new", "")
	panicBug := fs.Bool("panicbug", false, "")
	params := kvFlags{}
	fs.Var(params, "p", "param k=v")
	fs.Parse(args)
	lr, err := loadProgram("", "", loadPatterns)
	if err != nil {
		fmt.Fprintln(os.Stderr, "load:", err)
		os.Exit(2)
	}
	if len(lr.Errors) > 0 {
		fmt.Fprintln(os.Stderr, "load errors:\n"+strings.Join(lr.Errors, "\n"))
		os.Exit(2)
	}
	theProgram = lr.P
	fmt.Fprintf(os.Stderr, "loaded in %.1fs\n", lr.LoadSecs)
	ex, err := newExec(lr.P, *solver, 120000)
	if err != nil {
		fmt.Fprintln(os.Stderr, err)
		os.Exit(2)
	}
	ex.cfg.Verbose = *verbose
	t0 := time.Now()
	init, log := ex.buildInitialHeap([]string{pkgPathOf(*pkg)})
	fmt.Fprintf(os.Stderr, "init heap: %d objects, %d instrs, %.1fs\n", init.heap.n, ex.instrs, time.Since(t0).Seconds())
	for _, l := range log {
		fmt.Fprintln(os.Stderr, "  init:", l)
	}
	spec := &HarnessSpec{Name: *name, Pkg: *pkg, Unwind: *unwind, MaxPaths: *maxPaths, MaxSecs: *maxSecs, PanicIsBug: *panicBug}
	ex.forkSites = map[string]int{}
	res := ex.runJob(init, Job{Spec: spec, Params: params, Label: *name}, *verbose)
	printResult(res)
	type kv struct {
		k string
		v int
	}
	var fsites []kv
	for k, v := range ex.forkSites {
		fsites = append(fsites, kv{k, v})
	}
	sort.Slice(fsites, func(i, j int) bool { return fsites[i].v > fsites[j].v })
	for i, f := range fsites {
		if i >= 15 {
			break
		}
		fmt.Printf("  fork-site x%d: %s\n", f.v, f.k)
	}
	fmt.Printf("  if-converted: %d, query-cache hits: %d\n", ex.ifConverted, ex.qcacheHits)
	ex.solver.Close()
}

func printResult(res *JobResult) {
	fmt.Printf("harness %s: %d paths %v, %d branches, %d forks, %d instrs, %.2fs\n", res.Label, res.Paths, res.PathsByEnd, res.Branches, res.Forks, res.Instrs, res.Seconds)
	fmt.Printf("  solver: %d queries (%d sat, %d unsat, %d unknown, %d errors) %.2fs max %.3fs; model hits %d\n",
		res.Solver.Queries, res.Solver.Sat, res.Solver.Unsat, res.Solver.Unknown, res.Solver.Errors, res.Solver.Seconds, res.Solver.MaxQueryS, res.ModelHits)
	var sites []string
	for k := range res.Asserts {
		sites = append(sites, k)
	}
	sort.Strings(sites)
	for _, k := range sites {
		a := res.Asserts[k]
		fmt.Printf("  assert %-70s reached %d proved %d trivial %d FAILED %d\n", k, a.Reached, a.Proved, a.Trivial, a.Failed)
	}
	for _, v := range res.Violations {
		fmt.Printf("  VIOLATION[%s] %s\n     inputs %v\n     choices %v\n     notes %v\n", v.Kind, v.Msg, v.Inputs, v.Choices, v.Notes)
	}
	for _, s := range res.Incon {
		fmt.Printf("  INCONCLUSIVE: %s\n", s)
	}
	for k, n := range res.BlockSites {
		fmt.Printf("  blocked-site x%d: %s\n", n, k)
	}
	for i, s := range res.Samples {
		if i >= 4 {
			break
		}
		fmt.Printf("  sample: %s choices=%v inputs=%v notes=%v\n", s.End, s.Choices, s.Inputs, s.Notes)
	}
}

// ------------------------------------------------------------------ check

func tierParams(spec *HarnessSpec, tier string) map[string]int {
	p := map[string]int{}
	for k, v := range spec.Params {
		p[k] = v
	}
	var over map[string]int
	if tier == "thorough" {
		over = spec.Thorough
	} else {
		over = spec.Quick
	}
	for k, v := range over {
		p[k] = v
	}
	return p
}

func cmdCheck(args []string) int {
	if len(args) < 2 {
		usage()
	}
	id, tier := args[0], args[1]
	verbose := 0
	onlyHarness := ""
	for _, a := range args[2:] {
		if a == "-v" {
			verbose = 1
		} else if strings.HasPrefix(a, "-only=") {
			onlyHarness = a[6:]
		}
	}
	if t := os.Getenv("VERIF_TIER"); t == "quick" || t == "thorough" {
		tier = t
	}
	seed, _ := strconv.Atoi(os.Getenv("VERIF_SEED"))
	t0 := time.Now()
	reg, err := loadRegistry()
	if err != nil {
		fmt.Fprintln(os.Stderr, err)
		return 2
	}
	prop := reg[id]
	if prop == nil {
		fmt.Fprintln(os.Stderr, "unknown property", id)
		return 2
	}
	return runProperty(prop, tier, seed, verbose, onlyHarness, t0)
}

func runWorkers(P *Program, init *State, jobs []Job, verbose int, nworkers int) []*JobResult {
	pool := &Pool{jobs: jobs, results: make([]*JobResult, len(jobs)), start: make([]time.Time, len(jobs))}
	var wg sync.WaitGroup
	if nworkers < 1 {
		nworkers = 1
	}
	for w := 0; w < nworkers; w++ {
		wg.Add(1)
		go func() {
			defer wg.Done()
			execs := map[string]*Exec{}
			defer func() {
				for _, e := range execs {
					e.solver.Close()
				}
			}()
			getExec := func(spec *HarnessSpec) (*Exec, error) {
				kind := spec.Solver
				if kind == "" {
					kind = "z3-new"
				}
				if ex := execs[kind]; ex != nil {
					return ex, nil
				}
				ex, err := newExec(P, kind, 120000)
				if err == nil {
					execs[kind] = ex
				}
				return ex, err
			}
			idleMarked := false
			for {
				pool.mu.Lock()
				var i = -1
				var sw *stolen
				if pool.next < len(pool.jobs) {
					i = pool.next
					pool.next++
					pool.start[i] = time.Now()
					pool.busy++
				} else if n := len(pool.shared); n > 0 {
					x := pool.shared[n-1]
					pool.shared = pool.shared[:n-1]
					sw = &x
					pool.busy++
				}
				done := i < 0 && sw == nil && pool.busy == 0
				pool.mu.Unlock()
				if i < 0 && sw == nil {
					if done {
						if idleMarked {
							atomic.AddInt32(&pool.idle, -1)
						}
						return
					}
					if !idleMarked {
						atomic.AddInt32(&pool.idle, 1)
						idleMarked = true
					}
					time.Sleep(5 * time.Millisecond)
					continue
				}
				if idleMarked {
					atomic.AddInt32(&pool.idle, -1)
					idleMarked = false
				}
				var res *JobResult
				ji := i
				if i >= 0 {
					ex, err := getExec(jobs[i].Spec)
					if err != nil {
						res = &JobResult{Label: jobs[i].Label, Harness: jobs[i].Spec.Name, PathsByEnd: map[string]int{}, Incon: []string{"cannot start solver: " + err.Error()}}
					} else {
						res = ex.runJobPool(pool, i, init, jobs[i], verbose)
					}
				} else {
					ji = sw.job
					ex, err := getExec(jobs[ji].Spec)
					if err != nil {
						res = &JobResult{Label: jobs[ji].Label, Harness: jobs[ji].Spec.Name, PathsByEnd: map[string]int{}, Incon: []string{"cannot start solver: " + err.Error()}}
					} else {
						t0 := time.Now()
						ex.resetStats(jobs[ji], verbose)
						ex.work = []*State{sw.st}
						pool.mu.Lock()
						started := pool.start[ji]
						pool.mu.Unlock()
						ex.explore(pool, ji, jobs[ji].Spec, started)
						res = ex.collect(jobs[ji], t0)
					}
				}
				pool.mu.Lock()
				pool.results[ji] = mergeResult(pool.results[ji], res)
				pool.busy--
				pool.mu.Unlock()
			}
		}()
	}
	wg.Wait()
	if verbose > 0 {
		for _, r := range pool.results {
			if r != nil {
				printResult(r)
			}
		}
	}
	return pool.results
}
