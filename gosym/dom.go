package main

// Finite-domain shortcut for byte variables.
//
// Input parsers branch almost exclusively on single input bytes.  For a
// condition whose variables are 8-bit inputs that occur in no multi-variable
// conjunct of the path condition ("unlinked"), satisfiability is decided
// exactly by evaluating the condition on the (at most 256) values the path
// condition still allows for each byte — a complete decision procedure for
// that fragment, used only to prune/confirm branch sides.  Assertions are
// always sent to the SMT solver over the full path condition.  With
// GOSYM_AUDIT=1 every answer given here is re-checked by the solver.

type byteDom [4]uint64

func (d *byteDom) has(v uint64) bool { return d[v>>6]&(1<<(v&63)) != 0 }
func (d *byteDom) clear(v uint64)    { d[v>>6] &^= 1 << (v & 63) }
func fullDom() *byteDom              { return &byteDom{^uint64(0), ^uint64(0), ^uint64(0), ^uint64(0)} }

func varTerm(id int32) *Term {
	v, ok := termByID.Load(id)
	if !ok {
		return nil
	}
	return v.(*Term)
}

func realVars(t *Term) []int32 {
	vs := t.Vars()
	for _, v := range vs {
		if v < 0 {
			return nil // uninterpreted functions: not for this fragment
		}
	}
	return vs
}

// noteConstraint updates domains/links for a new path-condition conjunct.
func (s *State) noteConstraint(c *Term) {
	vs := c.Vars()
	if len(vs) == 1 && vs[0] > 0 {
		vt := varTerm(vs[0])
		if vt != nil && vt.sort.K == KBV && vt.sort.Bits == 8 {
			d := s.dom[vs[0]]
			var nd byteDom
			if d == nil {
				nd = *fullDom()
			} else {
				nd = *d
			}
			m := Model{}
			for v := uint64(0); v < 256; v++ {
				if !nd.has(v) {
					continue
				}
				m[vs[0]] = v
				r, ok := evalTerm(c, m)
				if !ok {
					// not evaluable: the domain would no longer be exact for this variable
					s.ownDom()
					s.linked[vs[0]] = true
					return
				}
				if r == 0 {
					nd.clear(v)
				}
			}
			s.ownDom()
			s.dom[vs[0]] = &nd
			return
		}
	}
	if len(vs) > 1 {
		s.ownDom()
		for _, v := range vs {
			if v > 0 {
				s.linked[v] = true
			}
		}
	}
}

func (s *State) ownDom() {
	if s.domOwned {
		return
	}
	nd := make(map[int32]*byteDom, len(s.dom)+4)
	for k, v := range s.dom {
		nd[k] = v
	}
	nl := make(map[int32]bool, len(s.linked)+4)
	for k, v := range s.linked {
		nl[k] = v
	}
	s.dom, s.linked, s.domOwned = nd, nl, true
}

// byteAtom: c mentions exactly one variable, an unlinked 8-bit input.
func (s *State) byteAtom(c *Term) (int32, bool) {
	vs := realVars(c)
	if len(vs) != 1 {
		return 0, false
	}
	if s.linked[vs[0]] {
		return 0, false
	}
	vt := varTerm(vs[0])
	if vt == nil || vt.sort.K != KBV || vt.sort.Bits != 8 {
		return 0, false
	}
	return vs[0], true
}

// satisfyingValue: some value of var id allowed by the domain under which all atoms hold.
func (s *State) satisfyingValue(id int32, atoms []*Term) (uint64, bool, bool) {
	d := s.dom[id]
	m := Model{}
	for v := uint64(0); v < 256; v++ {
		if d != nil && !d.has(v) {
			continue
		}
		m[id] = v
		all := true
		for _, a := range atoms {
			r, ok := evalTerm(a, m)
			if !ok {
				return 0, false, false
			}
			if r == 0 {
				all = false
				break
			}
		}
		if all {
			return v, true, true
		}
	}
	return 0, false, true
}

// domDecide decides pc ∧ c for the byte fragment.  decided=false: not in the fragment.
func (ex *Exec) domDecide(st *State, c *Term) (feasible bool, m Model, decided bool) {
	if !st.modelOK {
		return false, nil, false
	}
	// conjunction of byte atoms
	conj := []*Term{c}
	if c.op == OpAnd {
		conj = c.args
	}
	allAtoms := true
	byVar := map[int32][]*Term{}
	var order []int32
	for _, a := range conj {
		id, ok := st.byteAtom(a)
		if !ok {
			allAtoms = false
			break
		}
		if _, seen := byVar[id]; !seen {
			order = append(order, id)
		}
		byVar[id] = append(byVar[id], a)
	}
	if allAtoms {
		over := Model{}
		for _, id := range order {
			v, sat, ok := st.satisfyingValue(id, byVar[id])
			if !ok {
				return false, nil, false
			}
			if !sat {
				return false, nil, true
			}
			over[id] = v
		}
		return true, overlay(st.model, over), true
	}
	// disjunction of byte atoms: Or(...) or Not(And(...))
	var disj []*Term
	if c.op == OpOr {
		disj = c.args
	} else if c.op == OpNot && c.args[0].op == OpAnd {
		for _, a := range c.args[0].args {
			disj = append(disj, mkNot(a))
		}
	} else {
		return false, nil, false
	}
	for _, a := range disj {
		if _, ok := st.byteAtom(a); !ok {
			return false, nil, false
		}
	}
	for _, a := range disj {
		id, _ := st.byteAtom(a)
		v, sat, ok := st.satisfyingValue(id, []*Term{a})
		if !ok {
			return false, nil, false
		}
		if sat {
			return true, overlay(st.model, Model{id: v}), true
		}
	}
	return false, nil, true
}

// atomStatus: 1 = true for every allowed value, -1 = false for every allowed value, 0 = undecided.
func (s *State) atomStatus(id int32, a *Term) int {
	d := s.dom[id]
	m := Model{}
	sawT, sawF := false, false
	for v := uint64(0); v < 256; v++ {
		if d != nil && !d.has(v) {
			continue
		}
		m[id] = v
		r, ok := evalTerm(a, m)
		if !ok {
			return 0
		}
		if r != 0 {
			sawT = true
		} else {
			sawF = true
		}
		if sawT && sawF {
			return 0
		}
	}
	if sawT {
		return 1
	}
	return -1
}

// splitByteConj handles `if a0 && a1 && ... ` (or its negation) where every a_i
// constrains one unlinked input byte: instead of recording the multi-variable
// disjunction ¬(a0∧a1∧…) on the false side, branch on the first undecided atom
// and re-execute the If.  All constraints stay single-byte, so domains stay exact.
// Returns (handled, simplified condition to use otherwise).
func (ex *Exec) splitByteConj(st *State, fr *Frame, c *Term, jumpTrue, jumpFalse func(s2 *State, f2 *Frame)) (bool, *Term) {
	if !st.modelOK {
		return false, c
	}
	pos, neg := c, false
	if c.op == OpNot && c.args[0].op == OpAnd {
		pos, neg = c.args[0], true
	}
	if pos.op != OpAnd {
		return false, c
	}
	ids := make([]int32, len(pos.args))
	for i, a := range pos.args {
		id, ok := st.byteAtom(a)
		if !ok {
			return false, c
		}
		ids[i] = id
	}
	var rest []*Term
	var restIDs []int32
	for i, a := range pos.args {
		switch st.atomStatus(ids[i], a) {
		case 1:
		case -1:
			// the conjunction is false outright
			if neg {
				jumpTrue(st, fr)
			} else {
				jumpFalse(st, fr)
			}
			return true, c
		default:
			rest = append(rest, a)
			restIDs = append(restIDs, ids[i])
		}
	}
	if len(rest) == 0 {
		if neg {
			jumpFalse(st, fr)
		} else {
			jumpTrue(st, fr)
		}
		return true, c
	}
	if len(rest) == 1 {
		if neg {
			return false, mkNot(rest[0])
		}
		return false, rest[0]
	}
	a0, id0 := rest[0], restIDs[0]
	vT, okT, _ := st.satisfyingValue(id0, []*Term{a0})
	vF, okF, _ := st.satisfyingValue(id0, []*Term{mkNot(a0)})
	if !okT || !okF {
		return false, c
	}
	ex.branches++
	ex.forks++
	ex.domPrunes++
	other := st.fork()
	ofr := other.top()
	other.addPC(mkNot(a0))
	other.model = overlay(other.model, Model{id0: vF})
	other.depth++
	if neg {
		jumpTrue(other, ofr)
	} else {
		jumpFalse(other, ofr)
	}
	ex.work = append(ex.work, other)
	st.addPC(a0)
	st.model = overlay(st.model, Model{id0: vT})
	st.depth++
	// st re-executes the same If with a0 now decided
	return true, c
}
