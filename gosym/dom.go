package main

// Finite-domain shortcut for byte variables.
//
// Input parsers branch almost exclusively on single input bytes.  For a
// condition whose variables are 8-bit inputs that occur in no multi-variable
// conjunct of the path condition ("unlinked"), satisfiability is decided
// exactly by evaluating the condition on the (at most 256) values the path
// condition still allows for each byte — a complete decision procedure for
// that fragment, used only to prune/confirm branch sides.  Assertions are
// always sent to the SMT solver over the full path condition.  With
// GOSYM_AUDIT=1 every answer given here is re-checked by the solver.

type byteDom [4]uint64

func (d *byteDom) has(v uint64) bool { return d[v>>6]&(1<<(v&63)) != 0 }
func (d *byteDom) clear(v uint64)    { d[v>>6] &^= 1 << (v & 63) }
func fullDom() *byteDom              { return &byteDom{^uint64(0), ^uint64(0), ^uint64(0), ^uint64(0)} }

func varTerm(id int32) *Term {
	v, ok := termByID.Load(id)
	if !ok {
		return nil
	}
	return v.(*Term)
}

func realVars(t *Term) []int32 {
	vs := t.Vars()
	for _, v := range vs {
		if v < 0 {
			return nil // uninterpreted functions: not for this fragment
		}
	}
	return vs
}

// wideDom: explicit small domain of a variable wider than 8 bits (e.g. a rune
// constrained to printable ASCII): materialised once single-variable range
// constraints bound it to at most 512 values.
type wideDom struct {
	cons []*Term // single-variable conjuncts seen so far
	lo   int64   // signed bounds derived from comparison patterns
	hi   int64
	vals []uint64 // explicit domain once small enough (nil before)
}

// unsignedUpper: c is an unsigned upper bound v < k / v <= k (so v is also non-negative as a signed value)
func unsignedUpper(c *Term) bool {
	neg := false
	if c.op == OpNot {
		neg = true
		c = c.args[0]
	}
	if c.op != OpUlt && c.op != OpUle || len(c.args) != 2 {
		return false
	}
	varLeft := c.args[1].op == OpConst
	// v < k (not negated, var on the left)  or  !(k <= v) / !(k < v) (negated, var on the right)
	return (varLeft && !neg) || (!varLeft && neg)
}

func cmpBound(c *Term, id int32, bits int) (isLower bool, bound int64, ok bool) {
	neg := false
	if c.op == OpNot {
		neg = true
		c = c.args[0]
	}
	if len(c.args) != 2 {
		return false, 0, false
	}
	isVar := func(t *Term) bool {
		for t.op == OpZext || t.op == OpSext {
			t = t.args[0]
		}
		return t.op == OpVar && t.id == id
	}
	a, b := c.args[0], c.args[1]
	var k *Term
	varLeft := false
	switch {
	case isVar(a) && b.op == OpConst && a.sort.Bits == bits:
		k, varLeft = b, true
	case isVar(b) && a.op == OpConst && b.sort.Bits == bits:
		k = a
	default:
		return false, 0, false
	}
	kv := signExt(k.val, k.sort.Bits)
	if (c.op == OpUlt || c.op == OpUle) && kv < 0 {
		return false, 0, false
	}
	// normalise to v OP k
	type rel int
	const (
		lt rel = iota
		le
		gt
		ge
	)
	var r rel
	switch c.op {
	case OpUlt, OpSlt:
		if varLeft {
			r = lt
		} else {
			r = gt
		}
	case OpUle, OpSle:
		if varLeft {
			r = le
		} else {
			r = ge
		}
	default:
		return false, 0, false
	}
	if neg {
		r = map[rel]rel{lt: ge, le: gt, gt: le, ge: lt}[r]
	}
	// unsigned comparisons bound a signed variable only from above when k >= 0 (v in [0,k]); treat v<k unsigned as 0<=v<k
	unsigned := c.op == OpUlt || c.op == OpUle
	switch r {
	case lt:
		return false, kv - 1, true
	case le:
		return false, kv, true
	case gt:
		if unsigned {
			return false, 0, false
		}
		return true, kv + 1, true
	case ge:
		if unsigned {
			return false, 0, false
		}
		return true, kv, true
	}
	return false, 0, false
}

func (s *State) noteWide(id int32, vt *Term, c *Term) {
	s.ownDom()
	old := s.wide[id]
	var w wideDom
	if old != nil {
		w = *old
		w.cons = append([]*Term(nil), old.cons...)
	} else {
		w.lo, w.hi = -(int64(1) << uint(vt.sort.Bits-1)), (int64(1)<<uint(vt.sort.Bits-1))-1
	}
	w.cons = append(w.cons, c)
	if w.vals != nil {
		// filter the explicit domain
		var nv []uint64
		m := Model{}
		for _, v := range w.vals {
			m[id] = v
			r, ok := evalTerm(c, m)
			if !ok {
				s.linked[id] = true
				return
			}
			if r != 0 {
				nv = append(nv, v)
			}
		}
		w.vals = nv
		s.wide[id] = &w
		return
	}
	if lower, b, ok := cmpBound(c, id, vt.sort.Bits); ok {
		if lower && b > w.lo {
			w.lo = b
		}
		if !lower && b < w.hi {
			w.hi = b
		}
		if !lower && unsignedUpper(c) && w.lo < 0 {
			w.lo = 0
		}
	}
	if w.hi-w.lo >= 0 && w.hi-w.lo < 512 {
		m := Model{}
		vals := []uint64{}
		for x := w.lo; x <= w.hi; x++ {
			uv := uint64(x) & mask(vt.sort.Bits)
			m[id] = uv
			all := true
			for _, cc := range w.cons {
				r, ok := evalTerm(cc, m)
				if !ok {
					s.linked[id] = true
					return
				}
				if r == 0 {
					all = false
					break
				}
			}
			if all {
				vals = append(vals, uv)
			}
		}
		w.vals = vals
	}
	s.wide[id] = &w
}

// noteConstraint updates domains/links for a new path-condition conjunct.
func (s *State) noteConstraint(c *Term) {
	vs := c.Vars()
	if len(vs) == 1 && vs[0] > 0 {
		vt := varTerm(vs[0])
		if vt != nil && vt.sort.K == KBV && vt.sort.Bits > 8 {
			s.noteWide(vs[0], vt, c)
			return
		}
		if vt != nil && vt.sort.K == KBV && vt.sort.Bits == 8 {
			d := s.dom[vs[0]]
			var nd byteDom
			if d == nil {
				nd = *fullDom()
			} else {
				nd = *d
			}
			m := Model{}
			for v := uint64(0); v < 256; v++ {
				if !nd.has(v) {
					continue
				}
				m[vs[0]] = v
				r, ok := evalTerm(c, m)
				if !ok {
					// not evaluable: the domain would no longer be exact for this variable
					s.ownDom()
					s.linked[vs[0]] = true
					return
				}
				if r == 0 {
					nd.clear(v)
				}
			}
			s.ownDom()
			s.dom[vs[0]] = &nd
			return
		}
	}
	if len(vs) > 1 {
		s.ownDom()
		for _, v := range vs {
			if v > 0 {
				s.linked[v] = true
			}
		}
	}
}

func (s *State) ownDom() {
	if s.domOwned {
		return
	}
	nd := make(map[int32]*byteDom, len(s.dom)+4)
	for k, v := range s.dom {
		nd[k] = v
	}
	nl := make(map[int32]bool, len(s.linked)+4)
	for k, v := range s.linked {
		nl[k] = v
	}
	nw := make(map[int32]*wideDom, len(s.wide)+2)
	for k, v := range s.wide {
		nw[k] = v
	}
	s.dom, s.linked, s.wide, s.domOwned = nd, nl, nw, true
}

// byteAtom: c mentions exactly one variable, an unlinked 8-bit input.
func (s *State) byteAtom(c *Term) (int32, bool) {
	vs := realVars(c)
	if len(vs) != 1 {
		return 0, false
	}
	if s.linked[vs[0]] {
		return 0, false
	}
	vt := varTerm(vs[0])
	if vt == nil || vt.sort.K != KBV {
		return 0, false
	}
	if vt.sort.Bits != 8 {
		if w := s.wide[vs[0]]; w == nil || w.vals == nil {
			return 0, false
		}
	}
	return vs[0], true
}

// domValues: the values variable id may still take (explicit list).
func (s *State) domValues(id int32) []uint64 {
	if w := s.wide[id]; w != nil && w.vals != nil {
		return w.vals
	}
	d := s.dom[id]
	out := make([]uint64, 0, 256)
	for v := uint64(0); v < 256; v++ {
		if d == nil || d.has(v) {
			out = append(out, v)
		}
	}
	return out
}

// satisfyingValue: some value of var id allowed by the domain under which all atoms hold.
func (s *State) satisfyingValue(id int32, atoms []*Term) (uint64, bool, bool) {
	m := Model{}
	for _, v := range s.domValues(id) {
		m[id] = v
		all := true
		for _, a := range atoms {
			r, ok := evalTerm(a, m)
			if !ok {
				return 0, false, false
			}
			if r == 0 {
				all = false
				break
			}
		}
		if all {
			return v, true, true
		}
	}
	return 0, false, true
}

// domDecide decides pc ∧ c for the byte fragment.  decided=false: not in the fragment.
func (ex *Exec) domDecide(st *State, c *Term) (feasible bool, m Model, decided bool) {
	if !st.modelOK {
		return false, nil, false
	}
	// conjunction of byte atoms
	conj := []*Term{c}
	if c.op == OpAnd {
		conj = c.args
	}
	allAtoms := true
	byVar := map[int32][]*Term{}
	var order []int32
	for _, a := range conj {
		id, ok := st.byteAtom(a)
		if !ok {
			allAtoms = false
			break
		}
		if _, seen := byVar[id]; !seen {
			order = append(order, id)
		}
		byVar[id] = append(byVar[id], a)
	}
	if allAtoms {
		over := Model{}
		for _, id := range order {
			v, sat, ok := st.satisfyingValue(id, byVar[id])
			if !ok {
				return false, nil, false
			}
			if !sat {
				return false, nil, true
			}
			over[id] = v
		}
		return true, overlay(st.model, over), true
	}
	// disjunction of byte atoms: Or(...) or Not(And(...))
	var disj []*Term
	if c.op == OpOr {
		disj = c.args
	} else if c.op == OpNot && c.args[0].op == OpAnd {
		for _, a := range c.args[0].args {
			disj = append(disj, mkNot(a))
		}
	} else {
		return false, nil, false
	}
	for _, a := range disj {
		if _, ok := st.byteAtom(a); !ok {
			return false, nil, false
		}
	}
	for _, a := range disj {
		id, _ := st.byteAtom(a)
		v, sat, ok := st.satisfyingValue(id, []*Term{a})
		if !ok {
			return false, nil, false
		}
		if sat {
			return true, overlay(st.model, Model{id: v}), true
		}
	}
	return false, nil, true
}

// atomStatus: 1 = true for every allowed value, -1 = false for every allowed value, 0 = undecided.
func (s *State) atomStatus(id int32, a *Term) int {
	m := Model{}
	sawT, sawF := false, false
	for _, v := range s.domValues(id) {
		m[id] = v
		r, ok := evalTerm(a, m)
		if !ok {
			return 0
		}
		if r != 0 {
			sawT = true
		} else {
			sawF = true
		}
		if sawT && sawF {
			return 0
		}
	}
	if sawT {
		return 1
	}
	return -1
}

// splitByteConj handles `if a0 && a1 && ... ` (or its negation) where every a_i
// constrains one unlinked input byte: instead of recording the multi-variable
// disjunction ¬(a0∧a1∧…) on the false side, branch on the first undecided atom
// and re-execute the If.  All constraints stay single-byte, so domains stay exact.
// Returns (handled, simplified condition to use otherwise).
func (ex *Exec) splitByteConj(st *State, fr *Frame, c *Term, jumpTrue, jumpFalse func(s2 *State, f2 *Frame)) (bool, *Term) {
	if !st.modelOK {
		return false, c
	}
	pos, neg := c, false
	if c.op == OpNot && c.args[0].op == OpAnd {
		pos, neg = c.args[0], true
	}
	if pos.op != OpAnd {
		return false, c
	}
	ids := make([]int32, len(pos.args))
	for i, a := range pos.args {
		id, ok := st.byteAtom(a)
		if !ok {
			return false, c
		}
		ids[i] = id
	}
	var rest []*Term
	var restIDs []int32
	for i, a := range pos.args {
		switch st.atomStatus(ids[i], a) {
		case 1:
		case -1:
			// the conjunction is false outright
			if neg {
				jumpTrue(st, fr)
			} else {
				jumpFalse(st, fr)
			}
			return true, c
		default:
			rest = append(rest, a)
			restIDs = append(restIDs, ids[i])
		}
	}
	if len(rest) == 0 {
		if neg {
			jumpFalse(st, fr)
		} else {
			jumpTrue(st, fr)
		}
		return true, c
	}
	if len(rest) == 1 {
		if neg {
			return false, mkNot(rest[0])
		}
		return false, rest[0]
	}
	a0, id0 := rest[0], restIDs[0]
	vT, okT, _ := st.satisfyingValue(id0, []*Term{a0})
	vF, okF, _ := st.satisfyingValue(id0, []*Term{mkNot(a0)})
	if !okT || !okF {
		return false, c
	}
	ex.branches++
	ex.forks++
	ex.domPrunes++
	other := st.fork()
	ofr := other.top()
	other.addPC(mkNot(a0))
	other.model = overlay(other.model, Model{id0: vF})
	other.depth++
	if neg {
		jumpTrue(other, ofr)
	} else {
		jumpFalse(other, ofr)
	}
	ex.work = append(ex.work, other)
	st.addPC(a0)
	st.model = overlay(st.model, Model{id0: vT})
	st.depth++
	// st re-executes the same If with a0 now decided
	return true, c
}
