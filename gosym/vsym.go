package main

// The harness vocabulary: body-less functions named vsym* declared in the
// harness packages.  In replay builds the same names are ordinary Go
// functions reading a table of concrete values (harness/vsym_native.go.txt).

import (
	"fmt"
	"strings"

	"golang.org/x/tools/go/ssa"
)

func (st *State) symName(name string) string {
	k := st.symCount[name]
	st.symCount[name] = k + 1
	if k == 0 {
		return name
	}
	return fmt.Sprintf("%s#%d", name, k)
}

func concStr(v Value, what string) string {
	s := v.(*StrV)
	if !s.conc {
		unsup("%s must be a concrete string", what)
	}
	return s.c
}

func (ex *Exec) newInput(st *State, name string, bits int, kind string) *Term {
	nm := st.symName(name)
	var t *Term
	if bits == 1 {
		t = mkVar(nm, SBool)
	} else if bits == -64 {
		t = mkVar(nm, SFP)
	} else {
		t = mkVar(nm, SBV(bits))
	}
	st.inputs = append(st.inputs, InputRec{Name: nm, T: t, Kind: kind})
	return t
}

func (ex *Exec) vsymCall(st *State, fr *Frame, dst ssa.Value, fn *ssa.Function, args []Value) {
	name := fn.Name()
	switch name {
	case "vsymInt", "vsymInt64", "vsymUint64":
		ex.ret(fr, dst, ex.newInput(st, concStr(args[0], name), 64, "int64"))
	case "vsymInt32", "vsymRune", "vsymUint32":
		ex.ret(fr, dst, ex.newInput(st, concStr(args[0], name), 32, "int32"))
	case "vsymInt16", "vsymUint16":
		ex.ret(fr, dst, ex.newInput(st, concStr(args[0], name), 16, "int16"))
	case "vsymByte", "vsymUint8", "vsymInt8":
		ex.ret(fr, dst, ex.newInput(st, concStr(args[0], name), 8, "byte"))
	case "vsymBool":
		ex.ret(fr, dst, ex.newInput(st, concStr(args[0], name), 1, "bool"))
	case "vsymFloat64":
		ex.ret(fr, dst, ex.newInput(st, concStr(args[0], name), -64, "float64"))
	case "vsymBytes":
		n := args[1].(*Term)
		if !n.IsConst() {
			unsup("vsymBytes length must be concrete")
		}
		base := concStr(args[0], name)
		bs := make([]*Term, int(n.Int()))
		for i := range bs {
			bs[i] = ex.newInput(st, fmt.Sprintf("%s[%d]", base, i), 8, "byte")
		}
		ex.ret(fr, dst, st.bytesToSlice(bs))
	case "vsymString":
		n := args[1].(*Term)
		if !n.IsConst() {
			unsup("vsymString length must be concrete")
		}
		base := concStr(args[0], name)
		bs := make([]*Term, int(n.Int()))
		for i := range bs {
			bs[i] = ex.newInput(st, fmt.Sprintf("%s[%d]", base, i), 8, "byte")
		}
		ex.ret(fr, dst, mkStrBytes(bs))
	case "vsymChoice":
		n := args[1].(*Term)
		if !n.IsConst() {
			unsup("vsymChoice n must be concrete")
		}
		base := concStr(args[0], name)
		nm := st.symName(base)
		if fix, ok := ex.params["choice:"+nm]; ok {
			if fix >= int(n.Int()) {
				// a work-split index beyond this choice's range: an empty job
				ex.endPath(st, "cut", "split index beyond choice range")
				return
			}
			c := mkBV(64, uint64(fix))
			st.inputs = append(st.inputs, InputRec{Name: nm, T: c, Kind: "choice"})
			st.choices = append(st.choices, fmt.Sprintf("%s=%d", nm, fix))
			ex.ret(fr, dst, c)
			return
		}
		var alts []Alt
		for i := 0; i < int(n.Int()); i++ {
			i := i
			alts = append(alts, Alt{cond: tTrue, then: func(ex *Exec, s2 *State, f2 *Frame) {
				c := mkBV(64, uint64(i))
				s2.inputs = append(s2.inputs, InputRec{Name: nm, T: c, Kind: "choice"})
				s2.choices = append(s2.choices, fmt.Sprintf("%s=%d", nm, i))
				if dst != nil {
					f2.regs[f2.info.index[dst]] = c
				}
				f2.ip++
			}})
		}
		if len(alts) == 0 {
			ex.endPath(st, "assume-false", "vsymChoice with n=0")
			return
		}
		ex.forkAlts(st, fr, dst, alts)
	case "vsymParam":
		nm := concStr(args[0], name)
		if v, ok := ex.params[nm]; ok {
			ex.ret(fr, dst, mkBV(64, uint64(int64(v))))
		} else {
			ex.ret(fr, dst, args[1])
		}
	case "vsymAssume":
		c := args[0].(*Term)
		if isTrue(c) {
			ex.ret(fr, dst, nil)
			return
		}
		can, m := ex.feasibleOne(st, c)
		if !can {
			ex.endPath(st, "assume-false", "")
			return
		}
		st.addPC(c)
		st.model, st.modelOK = m, m != nil
		ex.ret(fr, dst, nil)
	case "vsymAssert":
		ex.vsymAssert(st, fr, dst, args[0].(*Term), concStr(args[1], name))
	case "vsymAnd":
		ex.ret(fr, dst, mkAnd(args[0].(*Term), args[1].(*Term)))
	case "vsymOr":
		ex.ret(fr, dst, mkOr(args[0].(*Term), args[1].(*Term)))
	case "vsymImplies":
		ex.ret(fr, dst, mkImplies(args[0].(*Term), args[1].(*Term)))
	case "vsymIteInt":
		ex.ret(fr, dst, mkIte(args[0].(*Term), args[1].(*Term), args[2].(*Term)))
	case "vsymNote":
		k := concStr(args[0], name)
		st.notes = append(st.notes, Note{k, valNote(st, args[1])})
		ex.ret(fr, dst, nil)
	case "vsymNoteStr":
		k := concStr(args[0], name)
		st.notes = append(st.notes, Note{k, valNote(st, args[1])})
		ex.ret(fr, dst, nil)
	case "vsymSetenv":
		k, v := concStr(args[0], name), args[1].(*StrV)
		ne := make(map[string]*StrV, len(st.env)+1)
		for a, b := range st.env {
			ne[a] = b
		}
		ne[k] = v
		st.env = ne
		ex.ret(fr, dst, nil)
	case "vsymRunBlocked":
		// let every recorded goroutine run until all are blocked or finished
		fr.ip++
		st.thread().blocked = "runblocked"
		ex.schedule(st)
	case "vsymPreemptWindow":
		st.preemptOn = isTrue(args[0].(*Term))
		ex.ret(fr, dst, nil)
	case "vsymFireTimers":
		ex.fireTimers(st)
		ex.ret(fr, dst, nil)
	case "vsymNumThreads":
		ex.ret(fr, dst, mkBV(64, uint64(len(st.threads))))
	case "vsymThreadStatus":
		// 0 = finished, 1 = blocked, 2 = runnable, 3 = panicked
		i := int(args[0].(*Term).Int())
		v := 2
		if i >= len(st.threads) {
			v = -1
		} else if th := st.threads[i]; th.done || len(th.frames) == 0 {
			v = 0
		} else if th.blocked != "" {
			v = 1
		}
		ex.ret(fr, dst, mkBV(64, uint64(int64(v))))
	case "vsymBlockedSite":
		i := int(args[0].(*Term).Int())
		s := ""
		if i < len(st.threads) {
			s = st.threads[i].blocked
		}
		ex.ret(fr, dst, mkStr(s))
	case "vsymSleepCount":
		ex.ret(fr, dst, mkBV(64, uint64(len(st.sleeps))))
	case "vsymSleepTotal":
		tot := mkBV(64, 0)
		for _, s := range st.sleeps {
			tot = mkBin(OpAdd, tot, s)
		}
		ex.ret(fr, dst, tot)
	case "vsymIsSymbolic":
		t, ok := args[0].(*Term)
		ex.ret(fr, dst, mkBool(ok && !t.IsConst()))
	case "vsymUF":
		// uninterpreted function of one int argument
		nm := concStr(args[0], name)
		ex.ret(fr, dst, mkUF("uf."+nm, SBV(64), args[1].(*Term)))
	case "vsymUF2":
		nm := concStr(args[0], name)
		ex.ret(fr, dst, mkUF("uf."+nm, SBV(64), args[1].(*Term), args[2].(*Term)))
	case "vsymUFFloat2":
		nm := concStr(args[0], name)
		ex.ret(fr, dst, mkUF("uff."+nm, SFP, args[1].(*Term), args[2].(*Term)))
	case "vsymStructEq":
		// deep equality of two values given as pointers (or values) in interfaces
		a, b := args[0].(IfaceV), args[1].(IfaceV)
		ex.ret(fr, dst, ex.deepEq(st, a.v, b.v, 0))
	case "vsymTrack":
		ex.startTracking(st, args[0].(IfaceV))
		ex.ret(fr, dst, nil)
	case "vsymHeld":
		// number of mutexes currently held
		ex.ret(fr, dst, mkBV(64, uint64(len(st.held))))
	case "vsymCutPath":
		ex.endPath(st, "cut", concStr(args[0], name))
	default:
		unsup("unknown harness primitive %s", name)
	}
}

func valNote(st *State, v Value) string {
	switch x := v.(type) {
	case IfaceV:
		if x.t == nil {
			return "<nil>"
		}
		return valNote(st, x.v)
	case *Term:
		if x.IsConst() {
			if x.sort.K == KBool {
				return fmt.Sprint(x.Bool())
			}
			if x.sort.K == KFP {
				return fmt.Sprint(x.Float())
			}
			return fmt.Sprint(x.Int())
		}
		if st.modelOK {
			if val, ok := evalTerm(x, st.model); ok {
				return fmt.Sprintf("%d (witness; symbolic)", signExt(val, x.sort.Bits))
			}
		}
		return x.String()
	case *StrV:
		if x.conc {
			return fmt.Sprintf("%q", x.c)
		}
		if st.modelOK {
			bs := make([]byte, x.Len())
			for i := range bs {
				val, _ := evalTerm(x.At(i), st.model)
				bs[i] = byte(val)
			}
			return fmt.Sprintf("%q (witness; symbolic)", string(bs))
		}
		return x.String()
	case SliceV:
		if x.IsNil() {
			return "nil"
		}
		var parts []string
		for _, e := range st.sliceVals(x) {
			parts = append(parts, valNote(st, e))
		}
		return "[" + strings.Join(parts, " ") + "]"
	}
	return valString(v)
}

func (ex *Exec) vsymAssert(st *State, fr *Frame, dst ssa.Value, c *Term, msg string) {
	site := ex.sitePos(fr, fr.block.Instrs[fr.ip]) + ": " + msg
	as := ex.asserts[site]
	if as == nil {
		as = &AssertSite{Msg: msg}
		ex.asserts[site] = as
	}
	as.Reached++
	if isTrue(c) {
		as.Trivial++
		ex.ret(fr, dst, nil)
		return
	}
	// the verdict is always the solver's, over the whole path condition
	conj := append(append([]*Term(nil), st.pc...), mkNot(c))
	r, m := ex.solver.Check(conj, true)
	switch r {
	case Unsat:
		as.Proved++
		st.addPC(c)
		ex.ret(fr, dst, nil)
	case Sat:
		as.Failed++
		vals, kinds := inputsOf(st, m)
		ex.violations = append(ex.violations, &Violation{
			Harness: ex.curHarness, Msg: site, Inputs: vals, Kinds: kinds, Kind: "assert",
			Notes: append([]Note(nil), st.notes...), Choices: append([]string(nil), st.choices...),
		})
		// keep exploring the behaviours that satisfy the assertion
		if can, m2 := ex.feasibleOne(st, c); can {
			st.addPC(c)
			st.model, st.modelOK = m2, m2 != nil
			st.note("violated-earlier", site)
			ex.ret(fr, dst, nil)
			return
		}
		ex.endPath(st, "violation", site)
	default:
		ex.inconclusive("solver unknown on assertion " + site)
		ex.endPath(st, "unknown", site)
	}
}

func (ex *Exec) recordAccess(st *State, fr *Frame, p Ptr, write bool) {
	if ex.hbOn {
		ex.hbAccess(st, fr, p, write)
	}
	if st.track == 0 {
		return
	}
	ex.trackAccess(st, fr, p, write)
}

// deepEq: structural equality (pointers are followed, slices compared by content).
func (ex *Exec) deepEq(st *State, a, b Value, depth int) *Term {
	if depth > 6 {
		unsup("vsymStructEq: too deep")
	}
	switch x := a.(type) {
	case Ptr:
		y, ok := b.(Ptr)
		if !ok {
			return tFalse
		}
		if x.IsNil() || y.IsNil() {
			return mkBool(x.IsNil() && y.IsNil())
		}
		if x == y {
			return tTrue
		}
		return ex.deepEq(st, st.load(x), st.load(y), depth+1)
	case *StructV:
		y, ok := b.(*StructV)
		if !ok || len(x.f) != len(y.f) {
			return tFalse
		}
		cs := make([]*Term, len(x.f))
		for i := range x.f {
			cs[i] = ex.deepEq(st, x.f[i], y.f[i], depth+1)
		}
		return mkAnd(cs...)
	case *ArrayV:
		y, ok := b.(*ArrayV)
		if !ok || len(x.e) != len(y.e) {
			return tFalse
		}
		cs := make([]*Term, len(x.e))
		for i := range x.e {
			cs[i] = ex.deepEq(st, x.e[i], y.e[i], depth+1)
		}
		return mkAnd(cs...)
	case SliceV:
		y, ok := b.(SliceV)
		if !ok || x.len != y.len || x.IsNil() != y.IsNil() {
			return tFalse
		}
		va, vb := st.sliceVals(x), st.sliceVals(y)
		cs := make([]*Term, len(va))
		for i := range va {
			cs[i] = ex.deepEq(st, va[i], vb[i], depth+1)
		}
		return mkAnd(cs...)
	case IfaceV:
		y, ok := b.(IfaceV)
		if !ok {
			return tFalse
		}
		if x.t == nil || y.t == nil {
			return mkBool(x.t == nil && y.t == nil)
		}
		return ex.deepEq(st, x.v, y.v, depth+1)
	}
	return valEq(a, b)
}
