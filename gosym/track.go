package main

// Lock-set tracking (C10).  vsymTrack(p) marks the object p points to — and
// everything reachable from it — as shared state.  Every load/store/map
// access to a tracked object is recorded with: the location (object label +
// top-level field), read/write, whether the current thread holds a mutex, the
// thread, and the Screen method under analysis (the harness's "method" note).

import (
	"fmt"
	"go/types"
	"sort"
)

type trackInfo struct {
	labels map[int]string // object id -> label
	root   int
	rootT  *types.Struct
}

func (ex *Exec) startTracking(st *State, iv IfaceV) {
	p, ok := iv.v.(Ptr)
	if !ok || p.IsNil() {
		unsup("vsymTrack needs a non-nil pointer")
	}
	ti := &trackInfo{labels: map[int]string{}, root: p.obj}
	if pt, ok := iv.t.Underlying().(*types.Pointer); ok {
		if s, ok := pt.Elem().Underlying().(*types.Struct); ok {
			ti.rootT = s
		}
	}
	var walk func(v Value, label string, depth int)
	walk = func(v Value, label string, depth int) {
		if depth > 8 {
			return
		}
		switch x := v.(type) {
		case *StructV:
			for i, f := range x.f {
				walk(f, label, depth+1)
				_ = i
			}
		case *ArrayV:
			if len(x.e) > 64 {
				return
			}
			for _, f := range x.e {
				walk(f, label, depth+1)
			}
		case Ptr:
			if !x.IsNil() {
				if _, seen := ti.labels[x.obj]; !seen {
					ti.labels[x.obj] = label
					walk(st.heap.get(x.obj).v, label, depth+1)
				}
			}
		case SliceV:
			if !x.IsNil() {
				if _, seen := ti.labels[x.arr.obj]; !seen {
					ti.labels[x.arr.obj] = label
					walk(st.heap.get(x.arr.obj).v, label, depth+1)
				}
			}
		case MapV:
			if x.obj != 0 {
				if _, seen := ti.labels[x.obj]; !seen {
					ti.labels[x.obj] = label
				}
			}
		case IfaceV:
			if x.t != nil {
				walk(x.v, label, depth+1)
			}
		}
	}
	ti.labels[p.obj] = ""
	root := st.heap.get(p.obj).v
	if sv, ok := root.(*StructV); ok && ti.rootT != nil {
		for i, f := range sv.f {
			name := ti.rootT.Field(i).Name()
			if name == "ti" || name == "tty" || name == "Screen" {
				continue // the terminal description is immutable input; the tty has its own contract
			}
			walk(f, name, 1)
		}
	}
	st.track = p.obj
	st.trackInfo = ti
}

func (ex *Exec) trackAccess(st *State, fr *Frame, p Ptr, write bool) {
	ti := st.trackInfo
	if ti == nil {
		return
	}
	label, ok := ti.labels[p.obj]
	if !ok {
		return
	}
	if p.obj == ti.root {
		es := pathElems(p.path)
		if len(es) == 0 || ti.rootT == nil || es[0] >= ti.rootT.NumFields() {
			return
		}
		label = ti.rootT.Field(es[0]).Name()
		if label == "Mutex" || label == "ti" || label == "tty" || label == "wg" || label == "finiOnce" {
			return
		}
	}
	th := st.thread()
	locked := false
	for _, k := range st.held {
		if st.sideStr[k] == th.name {
			locked = true
		}
	}
	method := ""
	for i := len(st.notes) - 1; i >= 0; i-- {
		if st.notes[i].Key == "method" {
			method = st.notes[i].Val
			break
		}
	}
	site := fr.fn.Name()
	a := ex.accessAll[label]
	if a == nil {
		a = &AccessSummary{Loc: label, Threads: map[string]bool{}, Sites: map[string]bool{}, UnlockedAt: map[string]bool{}, Writers: map[string]bool{}}
		ex.accessAll[label] = a
	}
	// an access made by one of the library's own goroutines is attributed to that role
	role := "app"
	if st.cur != 0 {
		role = th.name
	}
	if write {
		a.Writes++
		a.Writers[method+" ("+site+")"] = true
		a.Sites["W:"+role] = true
	} else {
		a.Reads++
	}
	if !locked {
		a.Unlocked++
		if write {
			a.UnlockedW++
		}
		a.UnlockedAt[method+" ("+site+")"] = true
		a.Sites["U:"+role] = true
	}
	a.Threads[th.name] = true
}

func (ex *Exec) mergeAccess(st *State) {}

func mergeAccessSummary(dst, src *AccessSummary) {
	dst.Reads += src.Reads
	dst.Writes += src.Writes
	dst.Unlocked += src.Unlocked
	dst.UnlockedW += src.UnlockedW
	for k := range src.Threads {
		dst.Threads[k] = true
	}
	for k := range src.Sites {
		dst.Sites[k] = true
	}
	for k := range src.UnlockedAt {
		dst.UnlockedAt[k] = true
	}
	for k := range src.Writers {
		dst.Writers[k] = true
	}
}

// raceCandidates: locations written after tracking started and accessed without the lock somewhere.
func raceCandidates(acc map[string]*AccessSummary) []string {
	var out []string
	for loc, a := range acc {
		if a.Writes > 0 && a.Unlocked > 0 {
			var ws, us []string
			for w := range a.Writers {
				ws = append(ws, w)
			}
			for u := range a.UnlockedAt {
				us = append(us, u)
			}
			sort.Strings(ws)
			sort.Strings(us)
			out = append(out, fmt.Sprintf("%s: written by %v; accessed without the screen lock by %v", loc, ws, us))
		}
	}
	sort.Strings(out)
	return out
}

// trackNew: an object stored into tracked state becomes tracked itself (e.g. the
// cell array allocated by Resize).  The label map is copied on write.
func (ex *Exec) trackNew(st *State, target Ptr, v Value) {
	ti := st.trackInfo
	label, ok := ti.labels[target.obj]
	if !ok {
		return
	}
	if target.obj == ti.root && ti.rootT != nil {
		if es := pathElems(target.path); len(es) > 0 && es[0] < ti.rootT.NumFields() {
			label = ti.rootT.Field(es[0]).Name()
		}
	}
	id := 0
	switch x := v.(type) {
	case Ptr:
		id = x.obj
	case SliceV:
		id = x.arr.obj
	case MapV:
		id = x.obj
	}
	if id == 0 {
		return
	}
	if _, seen := ti.labels[id]; seen {
		return
	}
	if label == "ti" || label == "tty" || label == "Screen" {
		return
	}
	nl := make(map[int]string, len(ti.labels)+1)
	for k, v := range ti.labels {
		nl[k] = v
	}
	nl[id] = label
	st.trackInfo = &trackInfo{labels: nl, root: ti.root, rootT: ti.rootT}
}

// confined: every write and every unlocked access of the location comes from the
// same single internal goroutine (e.g. the main loop's private timer state): no race.
func confined(a *AccessSummary) bool {
	roles := map[string]bool{}
	for k := range a.Sites {
		if len(k) > 2 && (k[:2] == "W:" || k[:2] == "U:") {
			roles[k[2:]] = true
		}
	}
	if len(roles) != 1 {
		return false
	}
	for r := range roles {
		return r != "app"
	}
	return false
}
