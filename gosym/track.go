package main

// Lock-set tracking for C10 (filled in later).

func (ex *Exec) trackAccess(st *State, fr *Frame, p Ptr, write bool) {}
func (ex *Exec) mergeAccess(st *State)                               {}

func mergeAccessSummary(dst, src *AccessSummary) {
	dst.Reads += src.Reads
	dst.Writes += src.Writes
	dst.Unlocked += src.Unlocked
	dst.UnlockedW += src.UnlockedW
	for k := range src.Threads {
		if dst.Threads == nil {
			dst.Threads = map[string]bool{}
		}
		dst.Threads[k] = true
	}
	for k := range src.Sites {
		if dst.Sites == nil {
			dst.Sites = map[string]bool{}
		}
		dst.Sites[k] = true
	}
	for k := range src.UnlockedAt {
		if dst.UnlockedAt == nil {
			dst.UnlockedAt = map[string]bool{}
		}
		dst.UnlockedAt[k] = true
	}
}
