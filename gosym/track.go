package main

// Lock-set tracking for C10 (filled in later).

func (ex *Exec) trackAccess(st *State, fr *Frame, p Ptr, write bool) {}
func (ex *Exec) mergeAccess(st *State)                               {}
