package main

import (
	"fmt"
	"go/token"
	"go/types"
	"sort"
	"unicode/utf8"

	"golang.org/x/tools/go/ssa"
)

// toInt64 normalises an integer term of Go type t to 64 bits (sign- or zero-extended).
func toInt64(v *Term, t types.Type) *Term {
	_, signed, ok := typeIntBits(t)
	if !ok {
		panic(fmt.Sprintf("toInt64: not an integer type %v", t))
	}
	if v.sort.Bits == 64 {
		return v
	}
	if signed {
		return mkSext(v, 64)
	}
	return mkZext(v, 64)
}

func (ex *Exec) rtPanic(st *State, fr *Frame, msg string) {
	ex.goPanic(st, fr, "runtime error: "+msg, mkStr("runtime error: "+msg), true)
}

// splitOperand forks on the feasible concrete values of the integer operand
// held in register op and re-executes the current instruction in each fork.
func (ex *Exec) splitOperand(st *State, fr *Frame, op ssa.Value, t *Term, limit int, what string) {
	vals, ok := ex.concretize(st, t, limit)
	if !ok {
		ex.endPath(st, "unsupported", fmt.Sprintf("%s has more than %d feasible values at %s", what, limit, ex.where(st)))
		return
	}
	if len(vals) == 0 {
		ex.endPath(st, "infeasible", "no value for "+what)
		return
	}
	idx := fr.info.index[op]
	var alts []Alt
	for _, v := range vals {
		cv := mkBV(t.sort.Bits, v)
		alts = append(alts, Alt{cond: mkEq(t, cv), then: func(ex *Exec, s2 *State, f2 *Frame) {
			f2.regs[idx] = cv
		}})
	}
	ex.forkAlts(st, fr, nil, alts)
}

// indexCandidates narrows the cells a symbolic index can select: when the index depends
// on at most two input variables with explicit small domains (8-bit inputs, or wider ones
// bounded by single-variable range constraints), the index term is evaluated on every
// combination the domains allow.  The domains over-approximate the path condition, so no
// feasible cell is lost; nil = all n cells.  (Large constant tables - charset decode
// tables of 17 000 entries - would otherwise become ite chains over every entry.)
func (ex *Exec) indexCandidates(st *State, idx *Term, n int) []int {
	all := func() []int {
		out := make([]int, n)
		for i := range out {
			out[i] = i
		}
		return out
	}
	if n <= 64 {
		return all()
	}
	vars := realVars(idx)
	if len(vars) == 0 || len(vars) > 2 {
		return all()
	}
	doms := make([][]uint64, len(vars))
	total := 1
	for k, id := range vars {
		vt := varTerm(id)
		if vt == nil {
			return all()
		}
		if w := st.wide[id]; (w == nil || w.vals == nil) && vt.sort.Bits != 8 {
			return all()
		}
		doms[k] = st.domValues(id)
		total *= len(doms[k])
		if total > 1<<14 || total == 0 {
			return all()
		}
	}
	seen := map[int]bool{}
	m := Model{}
	var rec func(k int) bool
	rec = func(k int) bool {
		if k == len(vars) {
			v, ok := evalTerm(idx, m)
			if !ok {
				return false
			}
			if iv := int64(v); iv >= 0 && iv < int64(n) {
				seen[int(iv)] = true
			}
			return true
		}
		for _, v := range doms[k] {
			m[vars[k]] = v
			if !rec(k + 1) {
				return false
			}
		}
		return true
	}
	if !rec(0) || len(seen) == 0 {
		return all()
	}
	out := make([]int, 0, len(seen))
	for i := range seen {
		out = append(out, i)
	}
	sort.Ints(out)
	return out
}

// splitSymPtr forks on the symbolic index of the pointer held in register op.
func (ex *Exec) splitSymPtr(st *State, fr *Frame, op ssa.Value, sp SymPtr) {
	idx := fr.info.index[op]
	var alts []Alt
	for _, i := range ex.indexCandidates(st, sp.idx, sp.n) {
		p := sp.at(i)
		alts = append(alts, Alt{cond: mkEq(sp.idx, mkBV(64, uint64(i))), then: func(ex *Exec, s2 *State, f2 *Frame) {
			f2.regs[idx] = p
		}})
	}
	ex.forkAlts(st, fr, nil, alts)
}

// ------------------------------------------------------------------ loads and stores

func (ex *Exec) loadAny(st *State, fr *Frame, op ssa.Value, p Value) (Value, bool) {
	switch x := p.(type) {
	case Ptr:
		if x.IsNil() {
			ex.rtPanic(st, fr, "invalid memory address or nil pointer dereference")
			return nil, false
		}
		ex.recordAccess(st, fr, x, false)
		return st.load(x), true
	case SymPtr:
		// ite-merge over all candidate cells
		var acc Value
		okMerge := true
		cands := ex.indexCandidates(st, x.idx, x.n)
		for k := len(cands) - 1; k >= 0; k-- {
			i := cands[k]
			v := st.load(x.at(i))
			if acc == nil {
				acc = v
				continue
			}
			m, ok := mergeVal(mkEq(x.idx, mkBV(64, uint64(i))), v, acc)
			if !ok {
				okMerge = false
				break
			}
			acc = m
		}
		if okMerge {
			ex.recordAccess(st, fr, x.at(0), false)
			return acc, true
		}
		ex.splitSymPtr(st, fr, op, x)
		return nil, false
	}
	panic(fmt.Sprintf("load through %T", p))
}

func (ex *Exec) storeAny(st *State, fr *Frame, op ssa.Value, p Value, v Value) bool {
	switch x := p.(type) {
	case Ptr:
		if x.IsNil() {
			ex.rtPanic(st, fr, "invalid memory address or nil pointer dereference")
			return false
		}
		ex.recordAccess(st, fr, x, true)
		if st.trackInfo != nil {
			ex.trackNew(st, x, v)
		}
		st.store(x, v)
		return true
	case SymPtr:
		cands := ex.indexCandidates(st, x.idx, x.n)
		news := make([]Value, len(cands))
		for k, i := range cands {
			old := st.load(x.at(i))
			m, ok := mergeVal(mkEq(x.idx, mkBV(64, uint64(i))), v, old)
			if !ok {
				ex.splitSymPtr(st, fr, op, x)
				return false
			}
			news[k] = m
		}
		for k, i := range cands {
			st.store(x.at(i), news[k])
		}
		ex.recordAccess(st, fr, x.at(0), true)
		return true
	}
	panic(fmt.Sprintf("store through %T", p))
}

func (ex *Exec) storeInstr(st *State, fr *Frame, x *ssa.Store) {
	p := ex.get(st, fr, x.Addr)
	v := ex.get(st, fr, x.Val)
	if ex.storeAny(st, fr, x.Addr, p, v) {
		fr.ip++
	}
}

func (ex *Exec) fieldAddr(st *State, fr *Frame, x *ssa.FieldAddr) {
	p := ex.get(st, fr, x.X)
	switch q := p.(type) {
	case Ptr:
		if q.IsNil() {
			ex.rtPanic(st, fr, "invalid memory address or nil pointer dereference")
			return
		}
		ex.set(fr, x, q.Elem(x.Field))
	case SymPtr:
		q.post = pathAppend(q.post, x.Field)
		ex.set(fr, x, q)
	default:
		panic(fmt.Sprintf("FieldAddr on %T", p))
	}
	fr.ip++
}

// ------------------------------------------------------------------ indexing

// boundsFork handles a symbolic index: forks an out-of-range panic path and
// continues with cont(idx64) on the in-range path (constraint added).
func (ex *Exec) checkIndex(st *State, fr *Frame, idx *Term, n int, dst ssa.Value, inRange func(s2 *State, f2 *Frame)) {
	inb := mkCmp(OpUlt, idx, mkBV(64, uint64(n)))
	if isTrue(inb) {
		inRange(st, fr)
		return
	}
	alts := []Alt{
		{cond: inb, then: func(ex *Exec, s2 *State, f2 *Frame) { inRange(s2, f2) }},
		{cond: mkNot(inb), then: func(ex *Exec, s2 *State, f2 *Frame) {
			ex.rtPanic(s2, f2, fmt.Sprintf("index out of range [%s] with length %d", idx, n))
		}},
	}
	ex.forkAlts(st, fr, dst, alts)
}

func (ex *Exec) indexAddr(st *State, fr *Frame, x *ssa.IndexAddr) {
	base := ex.get(st, fr, x.X)
	idx := toInt64(ex.get(st, fr, x.Index).(*Term), x.Index.Type())
	var arr Ptr
	off, n := 0, 0
	switch b := base.(type) {
	case SliceV:
		arr, off, n = b.arr, b.off, b.len
	case Ptr:
		if b.IsNil() {
			ex.rtPanic(st, fr, "invalid memory address or nil pointer dereference")
			return
		}
		arr = b
		n = int(x.X.Type().Underlying().(*types.Pointer).Elem().Underlying().(*types.Array).Len())
	case SymPtr:
		ex.splitSymPtr(st, fr, x.X, b)
		return
	default:
		panic(fmt.Sprintf("IndexAddr on %T", base))
	}
	if idx.IsConst() {
		i := idx.Int()
		if i < 0 || i >= int64(n) {
			ex.rtPanic(st, fr, fmt.Sprintf("index out of range [%d] with length %d", i, n))
			return
		}
		ex.set(fr, x, arr.Elem(off+int(i)))
		fr.ip++
		return
	}
	ex.checkIndex(st, fr, idx, n, x, func(s2 *State, f2 *Frame) {
		var res Value
		if n == 1 {
			res = arr.Elem(off)
		} else {
			res = SymPtr{base: arr, idx: mkBin(OpAdd, idx, mkBV(64, uint64(off))), n: off + n}
			// note: candidates below off are excluded by the in-range constraint;
			// keep n tight by rebasing when off > 0
			if off > 0 {
				res = SymPtr{base: arr, idx: mkBin(OpAdd, idx, mkBV(64, uint64(off))), n: off + n}
			}
		}
		f2.regs[f2.info.index[x]] = res
		f2.ip++
	})
}

func (ex *Exec) index(st *State, fr *Frame, x *ssa.Index) {
	base := ex.get(st, fr, x.X)
	idx := toInt64(ex.get(st, fr, x.Index).(*Term), x.Index.Type())
	switch b := base.(type) {
	case *ArrayV:
		n := len(b.e)
		if idx.IsConst() {
			i := idx.Int()
			if i < 0 || i >= int64(n) {
				ex.rtPanic(st, fr, "index out of range")
				return
			}
			ex.set(fr, x, b.e[i])
			fr.ip++
			return
		}
		ex.checkIndex(st, fr, idx, n, x, func(s2 *State, f2 *Frame) {
			var acc Value
			for i := n - 1; i >= 0; i-- {
				if acc == nil {
					acc = b.e[i]
					continue
				}
				m, ok := mergeVal(mkEq(idx, mkBV(64, uint64(i))), b.e[i], acc)
				if !ok {
					unsup("Index: unmergeable array elements with symbolic index")
				}
				acc = m
			}
			f2.regs[f2.info.index[x]] = acc
			f2.ip++
		})
	case *StrV:
		ex.strIndex(st, fr, x, b, idx)
	default:
		panic(fmt.Sprintf("Index on %T", base))
	}
}

func (ex *Exec) strIndex(st *State, fr *Frame, dst ssa.Value, s *StrV, idx *Term) {
	n := s.Len()
	if idx.IsConst() {
		i := idx.Int()
		if i < 0 || i >= int64(n) {
			ex.rtPanic(st, fr, fmt.Sprintf("index out of range [%d] with length %d", i, n))
			return
		}
		ex.set(fr, dst, s.At(int(i)))
		fr.ip++
		return
	}
	ex.checkIndex(st, fr, idx, n, dst, func(s2 *State, f2 *Frame) {
		var acc *Term
		for i := n - 1; i >= 0; i-- {
			if acc == nil {
				acc = s.At(i)
				continue
			}
			acc = mkIte(mkEq(idx, mkBV(64, uint64(i))), s.At(i), acc)
		}
		f2.regs[f2.info.index[dst]] = acc
		f2.ip++
	})
}

// ------------------------------------------------------------------ maps

func mapKey(v Value) (string, bool) {
	switch x := v.(type) {
	case *Term:
		if !x.IsConst() {
			return fmt.Sprintf("sym:%d", x.id), false
		}
		return fmt.Sprintf("i%d:%d", x.sort.Bits, x.val), true
	case *StrV:
		if !x.conc {
			return fmt.Sprintf("syms:%p", x), false
		}
		return "s:" + x.c, true
	case Ptr:
		return "p:" + x.String(), true
	case IfaceV:
		if x.t == nil {
			return "nil", true
		}
		k, c := mapKey(x.v)
		return "I:" + x.t.String() + ":" + k, c
	case *StructV:
		out := "S{"
		allc := true
		for _, f := range x.f {
			k, c := mapKey(f)
			out += k + ","
			allc = allc && c
		}
		return out + "}", allc
	case *ArrayV:
		out := "A{"
		allc := true
		for _, f := range x.e {
			k, c := mapKey(f)
			out += k + ","
			allc = allc && c
		}
		return out + "}", allc
	case ChanV:
		return fmt.Sprintf("c:%d", x.obj), true
	}
	unsup("map key of type %T", v)
	return "", false
}

func (ex *Exec) lookup(st *State, fr *Frame, x *ssa.Lookup) {
	base := ex.get(st, fr, x.X)
	if s, ok := base.(*StrV); ok {
		idx := toInt64(ex.get(st, fr, x.Index).(*Term), x.Index.Type())
		ex.strIndex(st, fr, x, s, idx)
		return
	}
	m := base.(MapV)
	k := ex.get(st, fr, x.Index)
	vt := x.X.Type().Underlying().(*types.Map).Elem()
	zero := zeroVal(vt)
	mk := func(v Value, ok *Term) Value {
		if x.CommaOk {
			return TupleV{v, ok}
		}
		return v
	}
	if m.obj == 0 {
		ex.set(fr, x, mk(zero, tFalse))
		fr.ip++
		return
	}
	mo := st.mapObj(m)
	ex.recordAccess(st, fr, Ptr{obj: m.obj}, false)
	ks, conc := mapKey(k)
	if conc && !mo.symKeys {
		if e, ok := mo.m[ks]; ok {
			ex.set(fr, x, mk(copyVal(e.v), tTrue))
		} else {
			ex.set(fr, x, mk(zero, tFalse))
		}
		fr.ip++
		return
	}
	// symbolic: ite chain, fall back to forking when values do not merge
	var conds []*Term
	var vals []Value
	for _, kk := range mo.keys {
		e := mo.m[kk]
		c := valEq(k, e.k)
		if isFalse(c) {
			continue
		}
		conds = append(conds, c)
		vals = append(vals, e.v)
	}
	// identity maps (every value equals its key, e.g. the screen's palette cache):
	// the looked-up value is the key itself whenever it is present
	if kt, isT := k.(*Term); isT && len(conds) > 0 {
		ident := true
		for _, kk := range mo.keys {
			e := mo.m[kk]
			ek, ok1 := e.k.(*Term)
			ev, ok2 := e.v.(*Term)
			if !ok1 || !ok2 || !ek.IsConst() || !ev.IsConst() || ek.sort != ev.sort || ek.val != ev.val {
				ident = false
				break
			}
		}
		if zt, isZ := zero.(*Term); ident && isZ && zt.sort == kt.sort {
			okT := mkOr(conds...)
			ex.set(fr, x, mk(mkIte(okT, kt, zt), okT))
			fr.ip++
			return
		}
	}
	acc := zero
	okT := tFalse
	merged := true
	for i := len(conds) - 1; i >= 0; i-- {
		mv, ok := mergeVal(conds[i], vals[i], acc)
		if !ok {
			merged = false
			break
		}
		acc = mv
		okT = mkOr(conds[i], okT)
	}
	if merged {
		ex.set(fr, x, mk(acc, okT))
		fr.ip++
		return
	}
	var alts []Alt
	var none []*Term
	for i := range conds {
		alts = append(alts, Alt{cond: conds[i], val: mk(copyVal(vals[i]), tTrue)})
		none = append(none, mkNot(conds[i]))
	}
	alts = append(alts, Alt{cond: mkAnd(none...), val: mk(zero, tFalse)})
	ex.forkAlts(st, fr, x, alts)
}

func (ex *Exec) mapSet(st *State, m MapV, k, v Value) {
	mo := st.mapObjW(m)
	ks, conc := mapKey(k)
	if e, ok := mo.m[ks]; ok {
		e.v = copyVal(v)
		return
	}
	mo.m[ks] = &MapEntry{k: k, v: copyVal(v)}
	mo.keys = append(mo.keys, ks)
	if !conc {
		mo.symKeys = true
	}
}

func (ex *Exec) mapUpdate(st *State, fr *Frame, x *ssa.MapUpdate) {
	m := ex.get(st, fr, x.Map).(MapV)
	k := ex.get(st, fr, x.Key)
	v := ex.get(st, fr, x.Value)
	if m.obj == 0 {
		ex.goPanic(st, fr, "assignment to entry in nil map", mkStr("assignment to entry in nil map"), true)
		return
	}
	ex.recordAccess(st, fr, Ptr{obj: m.obj}, true)
	mo := st.mapObj(m)
	_, conc := mapKey(k)
	if conc && !mo.symKeys {
		ex.mapSet(st, m, k, v)
		fr.ip++
		return
	}
	var alts []Alt
	var none []*Term
	for _, kk := range mo.keys {
		e := mo.m[kk]
		c := valEq(k, e.k)
		if isFalse(c) {
			continue
		}
		key := kk
		alts = append(alts, Alt{cond: c, then: func(ex *Exec, s2 *State, f2 *Frame) {
			s2.mapObjW(m).m[key].v = copyVal(v)
			f2.ip++
		}})
		none = append(none, mkNot(c))
	}
	alts = append(alts, Alt{cond: mkAnd(none...), then: func(ex *Exec, s2 *State, f2 *Frame) {
		ex.mapSet(s2, m, k, v)
		f2.ip++
	}})
	ex.forkAlts(st, fr, nil, alts)
}

func (ex *Exec) mapDelete(st *State, fr *Frame, m MapV, k Value) {
	if m.obj == 0 {
		fr.ip++
		return
	}
	mo := st.mapObj(m)
	ks, conc := mapKey(k)
	del := func(s2 *State, key string) {
		w := s2.mapObjW(m)
		if _, ok := w.m[key]; !ok {
			return
		}
		delete(w.m, key)
		for i, kk := range w.keys {
			if kk == key {
				w.keys = append(append([]string(nil), w.keys[:i]...), w.keys[i+1:]...)
				break
			}
		}
	}
	if conc && !mo.symKeys {
		del(st, ks)
		fr.ip++
		return
	}
	var alts []Alt
	var none []*Term
	for _, kk := range mo.keys {
		e := mo.m[kk]
		c := valEq(k, e.k)
		if isFalse(c) {
			continue
		}
		key := kk
		alts = append(alts, Alt{cond: c, then: func(ex *Exec, s2 *State, f2 *Frame) {
			del(s2, key)
			f2.ip++
		}})
		none = append(none, mkNot(c))
	}
	alts = append(alts, Alt{cond: mkAnd(none...), then: func(ex *Exec, s2 *State, f2 *Frame) { f2.ip++ }})
	ex.forkAlts(st, fr, nil, alts)
}

// ------------------------------------------------------------------ range / next

type IterRef struct{ obj int }

func (ex *Exec) rangeInit(st *State, fr *Frame, x *ssa.Range) {
	v := ex.get(st, fr, x.X)
	it := &IterObj{}
	switch b := v.(type) {
	case *StrV:
		it.isStr = true
		it.str = b
	case MapV:
		it.mobj = b.obj
		if b.obj != 0 {
			mo := st.mapObj(b)
			for _, kk := range mo.keys {
				it.keys = append(it.keys, mo.m[kk].k)
			}
		}
	default:
		panic(fmt.Sprintf("Range over %T", v))
	}
	id := st.alloc(it)
	ex.set(fr, x, IterRef{obj: id})
	fr.ip++
}

func (ex *Exec) next(st *State, fr *Frame, x *ssa.Next) {
	ref := ex.get(st, fr, x.Iter).(IterRef)
	it := st.heap.own(ref.obj, st.id).v.(*IterObj)
	if x.IsString {
		s := it.str
		if it.pos >= s.Len() {
			ex.set(fr, x, TupleV{tFalse, mkBV(64, 0), mkBV(32, 0)})
			fr.ip++
			return
		}
		pos := it.pos
		if s.conc {
			r, sz := utf8.DecodeRuneInString(s.c[pos:])
			it.pos += sz
			ex.set(fr, x, TupleV{tTrue, mkBV(64, uint64(pos)), mkBV(32, uint64(r))})
			fr.ip++
			return
		}
		b0 := s.At(pos)
		if b0.IsConst() && b0.val < 0x80 {
			it.pos++
			ex.set(fr, x, TupleV{tTrue, mkBV(64, uint64(pos)), mkZext(b0, 32)})
			fr.ip++
			return
		}
		// symbolic: run the real utf8.DecodeRuneInString on the tail
		fn := ex.P.lookupFunc("unicode/utf8", "DecodeRuneInString")
		ex.pushCall(st, fn, []Value{s.Slice(pos, s.Len())}, nil, func(ex *Exec, s2 *State, res Value) {
			tv := res.(TupleV)
			sz := tv[1].(*Term)
			if !sz.IsConst() {
				unsup("symbolic rune size in range over string")
			}
			f2 := s2.top()
			it2 := s2.heap.own(ref.obj, s2.id).v.(*IterObj)
			it2.pos = pos + int(sz.Int())
			f2.regs[f2.info.index[x]] = TupleV{tTrue, mkBV(64, uint64(pos)), tv[0]}
			f2.ip++
		})
		return
	}
	mt := x.Iter.(*ssa.Range).X.Type().Underlying().(*types.Map)
	for it.pos < len(it.keys) {
		k := it.keys[it.pos]
		it.pos++
		if it.mobj == 0 {
			break
		}
		mo := st.mapObj(MapV{obj: it.mobj})
		ks, _ := mapKey(k)
		if e, ok := mo.m[ks]; ok {
			ex.set(fr, x, TupleV{tTrue, k, copyVal(e.v)})
			fr.ip++
			return
		}
	}
	ex.set(fr, x, TupleV{tFalse, zeroVal(mt.Key()), zeroVal(mt.Elem())})
	fr.ip++
}

// ------------------------------------------------------------------ slices

func (ex *Exec) makeSlice(st *State, fr *Frame, x *ssa.MakeSlice) {
	ln := ex.get(st, fr, x.Len).(*Term)
	cp := ex.get(st, fr, x.Cap).(*Term)
	if !ln.IsConst() {
		ex.splitOperand(st, fr, x.Len, ln, 64, "make length")
		return
	}
	if !cp.IsConst() {
		ex.splitOperand(st, fr, x.Cap, cp, 64, "make capacity")
		return
	}
	l, c := int(signExt(ln.val, ln.sort.Bits)), int(signExt(cp.val, cp.sort.Bits))
	if l < 0 || c < l {
		ex.goPanic(st, fr, "runtime error: makeslice: len out of range", mkStr("makeslice: len out of range"), true)
		return
	}
	if c > 1<<24 {
		unsup("make of %d elements", c)
	}
	et := x.Type().Underlying().(*types.Slice).Elem()
	elems := make([]Value, c)
	z := zeroVal(et)
	for i := range elems {
		switch z.(type) {
		case *StructV, *ArrayV:
			elems[i] = copyVal(z)
		default:
			elems[i] = z
		}
	}
	p := st.newArray(elems)
	ex.set(fr, x, SliceV{arr: p, off: 0, len: l, cap: c})
	fr.ip++
}

func (ex *Exec) slice(st *State, fr *Frame, x *ssa.Slice) {
	base := ex.get(st, fr, x.X)
	getB := func(v ssa.Value) (*Term, bool) {
		if v == nil {
			return nil, true
		}
		t := toInt64(ex.get(st, fr, v).(*Term), v.Type())
		if !t.IsConst() {
			ex.splitOperand(st, fr, v, ex.get(st, fr, v).(*Term), 64, "slice bound")
			return nil, false
		}
		return t, true
	}
	lo, ok := getB(x.Low)
	if !ok {
		return
	}
	hi, ok := getB(x.High)
	if !ok {
		return
	}
	mx, ok := getB(x.Max)
	if !ok {
		return
	}
	switch b := base.(type) {
	case *StrV:
		l, h := 0, b.Len()
		if lo != nil {
			l = int(lo.Int())
		}
		if hi != nil {
			h = int(hi.Int())
		}
		if l < 0 || h < l || h > b.Len() {
			ex.rtPanic(st, fr, fmt.Sprintf("slice bounds out of range [%d:%d] with length %d", l, h, b.Len()))
			return
		}
		ex.set(fr, x, b.Slice(l, h))
	case SliceV:
		l, h, m := 0, b.len, b.cap
		if lo != nil {
			l = int(lo.Int())
		}
		if hi != nil {
			h = int(hi.Int())
		}
		if mx != nil {
			m = int(mx.Int())
		}
		if l < 0 || h < l || m < h || m > b.cap {
			ex.rtPanic(st, fr, fmt.Sprintf("slice bounds out of range [%d:%d:%d] with capacity %d", l, h, m, b.cap))
			return
		}
		if b.IsNil() {
			ex.set(fr, x, SliceV{})
		} else {
			ex.set(fr, x, SliceV{arr: b.arr, off: b.off + l, len: h - l, cap: m - l})
		}
	case Ptr:
		if b.IsNil() {
			ex.rtPanic(st, fr, "nil pointer dereference (slice of nil array pointer)")
			return
		}
		n := int(x.X.Type().Underlying().(*types.Pointer).Elem().Underlying().(*types.Array).Len())
		l, h, m := 0, n, n
		if lo != nil {
			l = int(lo.Int())
		}
		if hi != nil {
			h = int(hi.Int())
		}
		if mx != nil {
			m = int(mx.Int())
		}
		if l < 0 || h < l || m < h || m > n {
			ex.rtPanic(st, fr, "slice bounds out of range")
			return
		}
		ex.set(fr, x, SliceV{arr: b, off: l, len: h - l, cap: m - l})
	case SymPtr:
		ex.splitSymPtr(st, fr, x.X, b)
		return
	default:
		panic(fmt.Sprintf("Slice of %T", base))
	}
	fr.ip++
}

// ------------------------------------------------------------------ type assertions

func (ex *Exec) implements(dyn types.Type, iface *types.Interface) bool {
	return types.Implements(dyn, iface)
}

func (ex *Exec) typeAssert(st *State, fr *Frame, x *ssa.TypeAssert) {
	v := ex.get(st, fr, x.X).(IfaceV)
	at := x.AssertedType
	ok := false
	var res Value
	if v.t != nil {
		if it, isI := at.Underlying().(*types.Interface); isI {
			ok = ex.implements(v.t, it)
			res = v
		} else {
			ok = types.Identical(v.t, at)
			res = v.v
		}
	}
	if x.CommaOk {
		if !ok {
			res = zeroVal(at)
		}
		ex.set(fr, x, TupleV{res, mkBool(ok)})
		fr.ip++
		return
	}
	if !ok {
		ex.goPanic(st, fr, fmt.Sprintf("interface conversion: %v is not %v", v.t, at), mkStr("interface conversion"), true)
		return
	}
	ex.set(fr, x, res)
	fr.ip++
}

// ------------------------------------------------------------------ unary

func (ex *Exec) unop(st *State, fr *Frame, x *ssa.UnOp) {
	v := ex.get(st, fr, x.X)
	switch x.Op {
	case token.NOT:
		ex.set(fr, x, mkNot(v.(*Term)))
	case token.SUB:
		t := v.(*Term)
		if t.sort.K == KFP {
			ex.set(fr, x, mkFNeg(t))
		} else {
			ex.set(fr, x, mkNeg(t))
		}
	case token.XOR:
		ex.set(fr, x, mkBNot(v.(*Term)))
	case token.MUL:
		r, ok := ex.loadAny(st, fr, x.X, v)
		if !ok {
			return
		}
		ex.set(fr, x, r)
	case token.ARROW:
		ex.recv(st, fr, x, v.(ChanV))
		return
	default:
		unsup("unop %v", x.Op)
	}
	fr.ip++
}

// ------------------------------------------------------------------ binary

func strLess(a, b *StrV, orEq bool) *Term {
	// lexicographic a < b (or <=)
	n := a.Len()
	if b.Len() < n {
		n = b.Len()
	}
	var res *Term
	if a.Len() < b.Len() || (orEq && a.Len() == b.Len()) {
		res = tTrue
	} else {
		res = tFalse
	}
	for i := n - 1; i >= 0; i-- {
		x, y := a.At(i), b.At(i)
		res = mkIte(mkEq(x, y), res, mkCmp(OpUlt, x, y))
	}
	return res
}

func (ex *Exec) binop(st *State, fr *Frame, x *ssa.BinOp) {
	a := ex.get(st, fr, x.X)
	b := ex.get(st, fr, x.Y)
	switch av := a.(type) {
	case *Term:
		bv, ok := b.(*Term)
		if !ok {
			panic(fmt.Sprintf("binop %v: %T vs %T", x.Op, a, b))
		}
		ex.termBinop(st, fr, x, av, bv)
		return
	case *StrV:
		bs := b.(*StrV)
		var r Value
		switch x.Op {
		case token.ADD:
			r = strConcat(av, bs)
		case token.EQL:
			r = strEq(av, bs)
		case token.NEQ:
			r = mkNot(strEq(av, bs))
		case token.LSS:
			r = strLess(av, bs, false)
		case token.LEQ:
			r = strLess(av, bs, true)
		case token.GTR:
			r = strLess(bs, av, false)
		case token.GEQ:
			r = strLess(bs, av, true)
		default:
			unsup("string binop %v", x.Op)
		}
		ex.set(fr, x, r)
		fr.ip++
		return
	}
	// comparisons of pointers, interfaces, channels, structs, ...
	var r *Term
	switch x.Op {
	case token.EQL:
		r = ex.cmpEq(st, a, b)
	case token.NEQ:
		r = mkNot(ex.cmpEq(st, a, b))
	default:
		unsup("binop %v on %T", x.Op, a)
	}
	ex.set(fr, x, r)
	fr.ip++
}

func (ex *Exec) cmpEq(st *State, a, b Value) *Term {
	// normalise nil comparisons: pointer-like zero values
	switch x := a.(type) {
	case SliceV:
		y := b.(SliceV)
		if y.IsNil() {
			return mkBool(x.IsNil())
		}
		if x.IsNil() {
			return mkBool(y.IsNil())
		}
	case SymPtr:
		if y, ok := b.(Ptr); ok && y.IsNil() {
			return tFalse
		}
		unsup("comparison of symbolic pointers")
	case Ptr:
		if _, ok := b.(SymPtr); ok {
			if x.IsNil() {
				return tFalse
			}
			unsup("comparison of symbolic pointers")
		}
	}
	return valEq(a, b)
}

func (ex *Exec) termBinop(st *State, fr *Frame, x *ssa.BinOp, a, b *Term) {
	t := x.X.Type()
	if a.sort.K == KBool {
		var r *Term
		switch x.Op {
		case token.EQL:
			r = mkEq(a, b)
		case token.NEQ:
			r = mkNot(mkEq(a, b))
		case token.AND, token.LAND:
			r = mkAnd(a, b)
		case token.OR, token.LOR:
			r = mkOr(a, b)
		default:
			unsup("bool binop %v", x.Op)
		}
		ex.set(fr, x, r)
		fr.ip++
		return
	}
	if a.sort.K == KFP {
		var r *Term
		switch x.Op {
		case token.ADD:
			r = mkFBin(OpFAdd, a, b)
		case token.SUB:
			r = mkFBin(OpFSub, a, b)
		case token.MUL:
			r = mkFBin(OpFMul, a, b)
		case token.QUO:
			r = mkFBin(OpFDiv, a, b)
		case token.EQL:
			r = mkFCmp(OpFEq, a, b)
		case token.NEQ:
			r = mkNot(mkFCmp(OpFEq, a, b))
		case token.LSS:
			r = mkFCmp(OpFLt, a, b)
		case token.LEQ:
			r = mkFCmp(OpFLe, a, b)
		case token.GTR:
			r = mkFCmp(OpFLt, b, a)
		case token.GEQ:
			r = mkFCmp(OpFLe, b, a)
		default:
			unsup("float binop %v", x.Op)
		}
		if k, ok := isBasicKind(t); ok && k == types.Float32 && r.sort.K == KFP {
			if !r.IsConst() {
				unsup("symbolic float32 arithmetic")
			}
			r = mkFP(float64(float32(r.Float())))
		}
		ex.set(fr, x, r)
		fr.ip++
		return
	}
	n, signed, ok := typeIntBits(t)
	if !ok {
		panic(fmt.Sprintf("termBinop: type %v", t))
	}
	_ = n
	var r *Term
	switch x.Op {
	case token.ADD:
		r = mkBin(OpAdd, a, b)
	case token.SUB:
		r = mkBin(OpSub, a, b)
	case token.MUL:
		r = mkBin(OpMul, a, b)
	case token.AND:
		r = mkBin(OpBAnd, a, b)
	case token.OR:
		r = mkBin(OpBOr, a, b)
	case token.XOR:
		r = mkBin(OpBXor, a, b)
	case token.AND_NOT:
		r = mkBin(OpBAnd, a, mkBNot(b))
	case token.QUO, token.REM:
		var op Op
		switch {
		case x.Op == token.QUO && signed:
			op = OpSDiv
		case x.Op == token.QUO:
			op = OpUDiv
		case signed:
			op = OpSRem
		default:
			op = OpURem
		}
		if b.IsConst() {
			if b.val == 0 {
				ex.rtPanic(st, fr, "integer divide by zero")
				return
			}
			r = mkBin(op, a, b)
			break
		}
		z := mkEq(b, mkBV(b.sort.Bits, 0))
		res := mkBin(op, a, b)
		ex.forkAlts(st, fr, x, []Alt{
			{cond: mkNot(z), val: res},
			{cond: z, then: func(ex *Exec, s2 *State, f2 *Frame) { ex.rtPanic(s2, f2, "integer divide by zero") }},
		})
		return
	case token.SHL, token.SHR:
		r = ex.shift(st, fr, x, a, b, signed)
		if r == nil {
			return
		}
	case token.EQL:
		r = mkEq(a, b)
	case token.NEQ:
		r = mkNot(mkEq(a, b))
	case token.LSS:
		if signed {
			r = mkCmp(OpSlt, a, b)
		} else {
			r = mkCmp(OpUlt, a, b)
		}
	case token.LEQ:
		if signed {
			r = mkCmp(OpSle, a, b)
		} else {
			r = mkCmp(OpUle, a, b)
		}
	case token.GTR:
		if signed {
			r = mkCmp(OpSlt, b, a)
		} else {
			r = mkCmp(OpUlt, b, a)
		}
	case token.GEQ:
		if signed {
			r = mkCmp(OpSle, b, a)
		} else {
			r = mkCmp(OpUle, b, a)
		}
	default:
		unsup("int binop %v", x.Op)
	}
	ex.set(fr, x, r)
	fr.ip++
}

func (ex *Exec) shift(st *State, fr *Frame, x *ssa.BinOp, a, cnt *Term, signed bool) *Term {
	n := a.sort.Bits
	_, cntSigned, _ := typeIntBits(x.Y.Type())
	if cntSigned {
		if cnt.IsConst() {
			if cnt.Int() < 0 {
				ex.rtPanic(st, fr, "negative shift amount")
				return nil
			}
		} else {
			neg := mkCmp(OpSlt, cnt, mkBV(cnt.sort.Bits, 0))
			if !isFalse(neg) {
				can, _ := ex.feasibleOne(st, neg)
				if can {
					// explore the panic in a fork, continue with non-negative here
					other := st.fork()
					other.addPC(neg)
					other.modelOK = false
					ex.work = append(ex.work, other)
					ofr := other.top()
					ex.rtPanic(other, ofr, "negative shift amount")
					st.addPC(mkNot(neg))
					if st.modelOK {
						if v, ok := evalTerm(neg, st.model); !ok || v != 0 {
							st.modelOK = false
						}
					}
				}
			}
		}
	}
	// big := cnt >= n (unsigned)
	big := mkCmp(OpUle, mkBV(cnt.sort.Bits, uint64(n)), cnt)
	var c2 *Term
	if cnt.sort.Bits >= n {
		c2 = mkExtract(cnt, n-1, 0)
	} else {
		c2 = mkZext(cnt, n)
	}
	var op Op
	var over *Term
	switch {
	case x.Op == token.SHL:
		op, over = OpShl, mkBV(n, 0)
	case signed:
		op = OpAShr
		over = mkBin(OpAShr, a, mkBV(n, uint64(n-1)))
	default:
		op, over = OpLShr, mkBV(n, 0)
	}
	return mkIte(big, over, mkBin(op, a, c2))
}

// ------------------------------------------------------------------ conversions

func (ex *Exec) convert(st *State, fr *Frame, x *ssa.Convert) {
	v := ex.get(st, fr, x.X)
	from, to := x.X.Type(), x.Type()
	fu, tu := from.Underlying(), to.Underlying()
	// string <- ...
	if tb, ok := tu.(*types.Basic); ok && tb.Info()&types.IsString != 0 {
		switch fv := v.(type) {
		case *StrV:
			ex.set(fr, x, fv)
			fr.ip++
			return
		case SliceV:
			et := fu.(*types.Slice).Elem().Underlying().(*types.Basic)
			if et.Kind() == types.Uint8 {
				if ex.hbOn && fv.len > 0 {
					ex.hbAccess(st, fr, fv.arr, false)
				}
				ex.set(fr, x, st.sliceToStr(fv))
				fr.ip++
				return
			}
			// []rune -> string: symbolic runes fork on their UTF-8 length class
			vals := st.sliceVals(fv)
			alts := []Alt{{cond: tTrue, val: emptyStr}}
			for _, rv := range vals {
				rt := rv.(*Term)
				if rt.IsConst() {
					piece := mkStr(string(utf8.AppendRune(nil, rune(rt.Int()))))
					for i := range alts {
						alts[i].val = strConcat(alts[i].val.(*StrV), piece)
					}
					continue
				}
				var na []Alt
				for _, a := range alts {
					for _, ra := range runeUTF8Alts(rt) {
						na = append(na, Alt{cond: mkAnd(a.cond, ra.cond), val: strConcat(a.val.(*StrV), ra.val.(*StrV))})
					}
				}
				alts = na
				if len(alts) > 256 {
					unsup("string([]rune): too many symbolic runes")
				}
			}
			ex.forkAlts(st, fr, x, alts)
			return
		case *Term:
			// integer -> string (rune encoding)
			n, signed, _ := typeIntBits(from)
			if fv.IsConst() {
				var r rune
				if signed {
					iv := fv.Int()
					if iv < 0 || iv > 0x10ffff {
						r = utf8.RuneError
					} else {
						r = rune(iv)
					}
				} else {
					if fv.val > 0x10ffff {
						r = utf8.RuneError
					} else {
						r = rune(fv.val)
					}
				}
				ex.set(fr, x, mkStr(string(r)))
				fr.ip++
				return
			}
			// symbolic: run real utf8.AppendRune(nil, rune(v))
			var r32 *Term
			switch {
			case n == 32:
				r32 = fv
			case n < 32 && signed:
				r32 = mkSext(fv, 32)
			case n < 32:
				r32 = mkZext(fv, 32)
			default:
				// out-of-range 64-bit values become RuneError: clamp to -1
				inr := mkCmp(OpUle, fv, mkBV(64, 0x10ffff))
				r32 = mkIte(inr, mkExtract(fv, 31, 0), mkBV(32, 0xffffffff))
			}
			fn := ex.P.lookupFunc("unicode/utf8", "AppendRune")
			ex.pushCall(st, fn, []Value{SliceV{}, r32}, nil, func(ex *Exec, s2 *State, res Value) {
				f2 := s2.top()
				f2.regs[f2.info.index[x]] = s2.sliceToStr(res.(SliceV))
				f2.ip++
			})
			return
		}
	}
	// []byte / []rune <- string
	if ts, ok := tu.(*types.Slice); ok {
		if sv, ok := v.(*StrV); ok {
			et := ts.Elem().Underlying().(*types.Basic)
			if et.Kind() == types.Uint8 {
				ex.set(fr, x, st.bytesToSlice(sv.Bytes()))
				fr.ip++
				return
			}
			if !sv.conc {
				unsup("[]rune(string) with symbolic bytes")
			}
			var elems []Value
			for _, r := range sv.c {
				elems = append(elems, mkBV(32, uint64(r)))
			}
			ex.set(fr, x, st.newSlice(elems))
			fr.ip++
			return
		}
	}
	// numeric conversions
	if tv, ok := v.(*Term); ok {
		fb, _ := fu.(*types.Basic)
		tb, _ := tu.(*types.Basic)
		if fb != nil && tb != nil {
			fn, fs, fint := intBits(fb.Kind())
			tn, ts, tint := intBits(tb.Kind())
			ffl := fb.Info()&types.IsFloat != 0
			tfl := tb.Info()&types.IsFloat != 0
			var r *Term
			switch {
			case fint && tint:
				switch {
				case tn == fn:
					r = tv
				case tn < fn:
					r = mkExtract(tv, tn-1, 0)
				case fs:
					r = mkSext(tv, tn)
				default:
					r = mkZext(tv, tn)
				}
				_ = ts
			case fint && tfl:
				r = mkFFromInt(tv, fs)
				if tb.Kind() == types.Float32 {
					if !r.IsConst() {
						unsup("symbolic float32")
					}
					r = mkFP(float64(float32(r.Float())))
				}
			case ffl && tint:
				r = mkFToInt(tv, tn, ts)
			case ffl && tfl:
				r = tv
				if tb.Kind() == types.Float32 {
					if !r.IsConst() {
						unsup("symbolic float32")
					}
					r = mkFP(float64(float32(r.Float())))
				}
			}
			if r != nil {
				ex.set(fr, x, r)
				fr.ip++
				return
			}
		}
	}
	// pointer <-> unsafe.Pointer and friends: keep the value
	switch v.(type) {
	case Ptr, SymPtr:
		ex.set(fr, x, v)
		fr.ip++
		return
	}
	unsup("convert %v -> %v (%T)", from, to, v)
}

// runeUTF8Alts: the UTF-8 encoding of a symbolic rune (32-bit), one alternative per length class.
func runeUTF8Alts(r *Term) []Alt {
	c := func(v uint64) *Term { return mkBV(32, v) }
	b8 := func(t *Term) *Term { return mkExtract(t, 7, 0) }
	shr := func(t *Term, n uint64) *Term { return mkBin(OpLShr, t, c(n)) }
	or := func(a *Term, k uint64) *Term { return mkBin(OpBOr, a, mkBV(8, k)) }
	low6 := func(t *Term) *Term { return mkBin(OpBAnd, b8(t), mkBV(8, 0x3f)) }
	in := func(lo, hi uint64) *Term { return mkAnd(mkCmp(OpUle, c(lo), r), mkCmp(OpUle, r, c(hi))) }
	surrogate := in(0xd800, 0xdfff)
	valid3 := mkAnd(in(0x800, 0xffff), mkNot(surrogate))
	invalid := mkOr(surrogate, mkCmp(OpUlt, c(0x10ffff), r)) // includes negative values (unsigned compare)
	return []Alt{
		{cond: in(0, 0x7f), val: mkStrBytes([]*Term{b8(r)})},
		{cond: in(0x80, 0x7ff), val: mkStrBytes([]*Term{or(b8(shr(r, 6)), 0xc0), or(low6(r), 0x80)})},
		{cond: valid3, val: mkStrBytes([]*Term{or(b8(shr(r, 12)), 0xe0), or(low6(shr(r, 6)), 0x80), or(low6(r), 0x80)})},
		{cond: in(0x10000, 0x10ffff), val: mkStrBytes([]*Term{or(b8(shr(r, 18)), 0xf0), or(low6(shr(r, 12)), 0x80), or(low6(shr(r, 6)), 0x80), or(low6(r), 0x80)})},
		{cond: invalid, val: mkStr("\uFFFD")},
	}
}
