package main

import (
	"fmt"
	"go/types"
	"strings"

	"golang.org/x/tools/go/ssa"
)

// Sequential model of goroutines: a thread runs until it finishes or blocks;
// then the next runnable thread runs (one fixed round-robin schedule).  A
// `select` with several ready cases forks (all choices explored).

func (ex *Exec) block(st *State, site string) {
	th := st.thread()
	th.blocked = site
	ex.blockSites[site]++
	ex.schedule(st)
}

func (ex *Exec) threadReady(st *State, i int) bool {
	th := st.threads[i]
	if th.done || len(th.frames) == 0 {
		return false
	}
	if th.blocked == "" {
		return true
	}
	if th.blocked == "runblocked" {
		return false
	}
	// re-evaluate the blocking instruction's readiness
	fr := th.frames[len(th.frames)-1]
	in := fr.block.Instrs[fr.ip]
	save := st.cur
	st.cur = i
	defer func() { st.cur = save }()
	switch x := in.(type) {
	case *ssa.Send:
		ch := ex.get(st, fr, x.Chan).(ChanV)
		return ex.sendReady(st, ch)
	case *ssa.UnOp:
		ch := ex.get(st, fr, x.X).(ChanV)
		return ex.recvReady(st, ch)
	case *ssa.Select:
		for _, s := range x.States {
			ch := ex.get(st, fr, s.Chan).(ChanV)
			if s.Dir == types.SendOnly {
				if ex.sendReady(st, ch) {
					return true
				}
			} else if ex.recvReady(st, ch) {
				return true
			}
		}
		return false
	case *ssa.Call:
		// blocked inside an intrinsic (Lock, Wait): let it retry
		return ex.intrinsicReady(st, fr, x)
	}
	return false
}

func (ex *Exec) schedule(st *State) {
	n := len(st.threads)
	for k := 1; k <= n; k++ {
		i := (st.cur + k) % n
		if i == 0 {
			continue // main considered last
		}
		if ex.threadReady(st, i) {
			st.threads[i].blocked = ""
			st.cur = i
			return
		}
	}
	main := st.threads[0]
	if main.blocked == "runblocked" {
		main.blocked = ""
		st.cur = 0
		return
	}
	if ex.threadReady(st, 0) {
		main.blocked = ""
		st.cur = 0
		return
	}
	if main.done || len(main.frames) == 0 {
		ex.endPath(st, "done", "")
		return
	}
	var sites []string
	for _, t := range st.threads {
		if t.blocked != "" {
			sites = append(sites, t.name+":"+t.blocked)
		}
	}
	ex.endPath(st, "blocked", strings.Join(sites, "; "))
}

func (ex *Exec) sendReady(st *State, ch ChanV) bool {
	if ch.obj == 0 {
		return false
	}
	co := st.chanObj(ch)
	return co.closed || len(co.buf) < co.cap
}

func (ex *Exec) recvReady(st *State, ch ChanV) bool {
	if ch.obj == 0 {
		return false
	}
	co := st.chanObj(ch)
	return co.closed || len(co.buf) > 0
}

func (ex *Exec) chanSite(st *State, fr *Frame, in ssa.Instruction, ch ChanV, op string) string {
	name := "nil"
	if ch.obj != 0 {
		name = st.chanObj(ch).name
	}
	return fmt.Sprintf("%s %s(chan made at %s) at %s", op, "", name, ex.sitePos(fr, in))
}

func (ex *Exec) send(st *State, fr *Frame, x *ssa.Send) {
	ch := ex.get(st, fr, x.Chan).(ChanV)
	v := ex.get(st, fr, x.X)
	if ch.obj != 0 {
		co := st.chanObj(ch)
		if co.closed {
			ex.goPanic(st, fr, "send on closed channel", mkStr("send on closed channel"), true)
			return
		}
		if len(co.buf) < co.cap {
			w := st.chanObjW(ch)
			w.buf = append(w.buf, copyVal(v))
			if ex.hbOn {
				w.vcs = append(w.vcs, ex.hbSendVC(st))
			}
			fr.ip++
			return
		}
	}
	ex.block(st, ex.chanSite(st, fr, x, ch, "send"))
}

func (ex *Exec) recv(st *State, fr *Frame, x *ssa.UnOp, ch ChanV) {
	et := x.X.Type().Underlying().(*types.Chan).Elem()
	mk := func(v Value, ok bool) Value {
		if x.CommaOk {
			return TupleV{v, mkBool(ok)}
		}
		return v
	}
	if ch.obj != 0 {
		co := st.chanObj(ch)
		if len(co.buf) > 0 {
			w := st.chanObjW(ch)
			v := w.buf[0]
			w.buf = append([]Value(nil), w.buf[1:]...)
			if ex.hbOn && len(w.vcs) > 0 {
				ex.hbRecvVC(st, w.vcs[0])
				w.vcs = append([]VC(nil), w.vcs[1:]...)
			}
			ex.set(fr, x, mk(v, true))
			fr.ip++
			return
		}
		if co.closed {
			ex.hbAcquire(st, fmt.Sprintf("close:%d", ch.obj))
			ex.set(fr, x, mk(zeroVal(et), false))
			fr.ip++
			return
		}
	}
	ex.block(st, ex.chanSite(st, fr, x, ch, "recv"))
}

func (ex *Exec) closeChan(st *State, fr *Frame, ch ChanV) {
	if ch.obj == 0 {
		ex.goPanic(st, fr, "close of nil channel", mkStr("close of nil channel"), true)
		return
	}
	if st.chanObj(ch).closed {
		ex.goPanic(st, fr, "close of closed channel", mkStr("close of closed channel"), true)
		return
	}
	st.chanObjW(ch).closed = true
	ex.hbRelease(st, fmt.Sprintf("close:%d", ch.obj), false)
}

func (ex *Exec) doSelect(st *State, fr *Frame, x *ssa.Select) {
	// result tuple: (index int, recvOk bool, r_0 T_0, ... r_n-1 T_n-1) for the recv cases
	var recvTypes []types.Type
	for _, s := range x.States {
		if s.Dir == types.RecvOnly {
			recvTypes = append(recvTypes, s.Chan.Type().Underlying().(*types.Chan).Elem())
		}
	}
	mkRes := func(idx int, ok bool, recvIdx int, v Value) Value {
		tv := TupleV{mkBV(64, uint64(int64(idx))), mkBool(ok)}
		for i, t := range recvTypes {
			if i == recvIdx {
				tv = append(tv, v)
			} else {
				tv = append(tv, zeroVal(t))
			}
		}
		return tv
	}
	type ready struct {
		i  int
		ri int
	}
	var rs []ready
	ri := 0
	for i, s := range x.States {
		ch := ex.get(st, fr, s.Chan).(ChanV)
		if s.Dir == types.SendOnly {
			if ex.sendReady(st, ch) {
				rs = append(rs, ready{i, -1})
			}
		} else {
			if ex.recvReady(st, ch) {
				rs = append(rs, ready{i, ri})
			}
			ri++
		}
	}
	if len(rs) == 0 {
		if !x.Blocking {
			ex.set(fr, x, mkRes(-1, false, -1, nil))
			fr.ip++
			return
		}
		var sites []string
		for _, s := range x.States {
			ch := ex.get(st, fr, s.Chan).(ChanV)
			nm := "nil"
			if ch.obj != 0 {
				nm = st.chanObj(ch).name
			}
			d := "recv"
			if s.Dir == types.SendOnly {
				d = "send"
			}
			sites = append(sites, d+"@"+nm)
		}
		ex.block(st, fmt.Sprintf("select{%s} at %s", strings.Join(sites, ","), ex.sitePos(fr, x)))
		return
	}
	var alts []Alt
	for _, r := range rs {
		r := r
		s := x.States[r.i]
		alts = append(alts, Alt{cond: tTrue, then: func(ex *Exec, s2 *State, f2 *Frame) {
			ch := ex.get(s2, f2, s.Chan).(ChanV)
			if s.Dir == types.SendOnly {
				co := s2.chanObj(ch)
				if co.closed {
					ex.goPanic(s2, f2, "send on closed channel", mkStr("send on closed channel"), true)
					return
				}
				v := ex.get(s2, f2, s.Send)
				w := s2.chanObjW(ch)
				w.buf = append(w.buf, copyVal(v))
				if ex.hbOn {
					w.vcs = append(w.vcs, ex.hbSendVC(s2))
				}
				f2.regs[f2.info.index[x]] = mkRes(r.i, false, -1, nil)
				f2.ip++
				return
			}
			co := s2.chanObj(ch)
			if len(co.buf) > 0 {
				w := s2.chanObjW(ch)
				v := w.buf[0]
				w.buf = append([]Value(nil), w.buf[1:]...)
				if ex.hbOn && len(w.vcs) > 0 {
					ex.hbRecvVC(s2, w.vcs[0])
					w.vcs = append([]VC(nil), w.vcs[1:]...)
				}
				f2.regs[f2.info.index[x]] = mkRes(r.i, true, r.ri, v)
			} else {
				ex.hbAcquire(s2, fmt.Sprintf("close:%d", ch.obj))
				et := s.Chan.Type().Underlying().(*types.Chan).Elem()
				f2.regs[f2.info.index[x]] = mkRes(r.i, false, r.ri, zeroVal(et))
			}
			f2.ip++
		}})
	}
	if len(alts) > 1 {
		// all ready cases are explored for the first `selectforks` multi-ready selects of a
		// path; after that the first ready case is taken (one schedule instead of all)
		lim, ok := ex.params["selectforks"]
		if !ok {
			lim = 64
		}
		if st.selForks >= lim {
			alts = alts[:1]
		} else {
			st.selForks++
			st.choices = append(st.choices, fmt.Sprintf("select@%s:%d-ready", ex.sitePos(fr, x), len(alts)))
		}
	}
	ex.forkAlts(st, fr, x, alts)
}
